"""Reference models of a forest and of the three mutating calls.  No anytree import.

State: parent[i] in {None, index}, children[i] = ordered list of indices.
Calls:  ("parent", a, b)    b in {None, index, NON}
        ("children", a, xs) xs = tuple over {index, NON}, or NONITER
        ("del", a)

apply_functional  - C02's words: the *effect* of a successful call and exactly when a call is refused.
Operational       - the documented protocol (C16's words: detach all former children in order, then
                    attach the new ones in order; hooks around every link change; documented recovery
                    "re-assign the former children"), under a fault schedule.  Supplies the expected
                    hook log (C16) and the exact outcome of the listed C03 findings.
"""

NON = "NON"  # an object that is not a tree node
NONE = "NONE"  # the value None used as a child
NONITER = "NONITER"

PRE_HOOKS = ("_pre_detach", "_pre_attach", "_pre_detach_children", "_pre_attach_children")
CHILD_HOOKS = ("_pre_detach", "_post_detach", "_pre_attach", "_post_attach")


def copy_state(parent, children):
    return list(parent), [list(c) for c in children]


def anc_or_self(parent, i):
    out = []
    steps = 0
    while i is not None:
        out.append(i)
        i = parent[i]
        steps += 1
        if steps > len(parent) + 1:
            raise RuntimeError("model corrupt: parent chain does not end")
    return out


def refusal(parent, children, op, family):
    """None if the call must succeed, else the class it must be refused with (C02)."""
    kind = op[0]
    a = op[1]
    if kind == "parent":
        b = op[2]
        if b == NON:
            return "TreeError" if family == "mixin" else "UNSPECIFIED"
        if b is None:
            return None
        if parent[a] is not None and parent[a] == b:
            return None  # assigning the parent it already has changes nothing
        if b == a or a in anc_or_self(parent, b):
            return "LoopError"
        return None
    if kind == "children":
        xs = op[2]
        if xs == NONITER:
            return "TypeError"
        seen = []
        for x in xs:
            if x == NON or x == NONE:
                return "TreeError" if family == "mixin" else "UNSPECIFIED"
            if x in seen:
                return "TreeError"
            seen.append(x)
        for x in xs:
            if x == a or x in anc_or_self(parent, a):
                return "LoopError"
        return None
    return None


def apply_functional(parent, children, op, family):
    """-> (outcome, parent', children'); on refusal the state is returned unchanged."""
    parent, children = copy_state(parent, children)
    r = refusal(parent, children, op, family)
    if r is not None:
        return r, parent, children
    kind, a = op[0], op[1]
    if kind == "parent":
        b = op[2]
        old = parent[a]
        if (old is None and b is None) or (old is not None and b is not None and old == b):
            return "ok", parent, children
        if old is not None:
            children[old] = [c for c in children[old] if c != a]
        parent[a] = b
        if b is not None:
            children[b].append(a)
    elif kind == "del":
        for c in children[a]:
            parent[c] = None
        children[a] = []
    else:
        xs = list(op[2])
        for c in children[a]:
            if c not in xs:
                parent[c] = None
        for x in xs:
            q = parent[x]
            if q is not None and q != a:
                children[q] = [c for c in children[q] if c != x]
            parent[x] = a
        children[a] = xs
    return "ok", parent, children


class Raised(Exception):
    def __init__(self, kind, where=None):
        Exception.__init__(self, kind)
        self.kind = kind
        self.where = where


class Operational(object):
    """fault(k, hookname) -> bool decides whether the k-th hook invocation of this call raises."""

    def __init__(self, parent, children, family, fault):
        self.parent, self.children = copy_state(parent, children)
        self.family = family
        self.fault = fault
        self.log = []
        self.k = 0
        self.changes = 0
        self.changes_at_failure = None
        self.failed_phase = None
        self.recovery_raised = False

    # -- hooks
    def hook(self, name, node, arg):
        if name in CHILD_HOOKS:
            obs = (self.parent[node], node in self.children[arg], bool(self.children[arg]) and self.children[arg][-1] == node)
            self.log.append((name, node, arg, obs))
        else:
            self.log.append((name, node, tuple(arg), (tuple(self.children[node]),)))
        k = self.k
        self.k += 1
        if self.fault(k, name):
            if self.changes_at_failure is None:
                self.changes_at_failure = self.changes
            raise Raised("Veto", name)

    def _refuse(self, kind):
        if self.changes_at_failure is None:
            self.changes_at_failure = self.changes
        raise Raised(kind)

    # -- calls
    def set_parent(self, a, b):
        if b == NON:
            self._refuse("TreeError" if self.family == "mixin" else "UNSPECIFIED")
        old = self.parent[a]
        if (old is None and b is None) or (old is not None and b is not None and old == b):
            return
        if b is not None and (b == a or a in anc_or_self(self.parent, b)):
            self._refuse("LoopError")
        if old is not None:
            self.hook("_pre_detach", a, old)
            self.children[old] = [c for c in self.children[old] if c != a]
            self.parent[a] = None
            self.changes += 1
            self.hook("_post_detach", a, old)
        if b is not None:
            self.hook("_pre_attach", a, b)
            self.children[b].append(a)
            self.parent[a] = b
            self.changes += 1
            self.hook("_post_attach", a, b)

    def del_children(self, a):
        old = tuple(self.children[a])
        self.hook("_pre_detach_children", a, old)
        for c in tuple(self.children[a]):
            self.set_parent(c, None)
        self.hook("_post_detach_children", a, old)

    def set_children(self, a, xs, top=True):
        if xs == NONITER:
            self._refuse("TypeError")
        xs = tuple(xs)
        seen = []
        for x in xs:
            if x == NON or x == NONE:
                self._refuse("TreeError" if self.family == "mixin" else "UNSPECIFIED")
            if x in seen:
                self._refuse("TreeError")
            seen.append(x)
        old = tuple(self.children[a])
        try:
            self.del_children(a)
        except Raised:
            if top and self.failed_phase is None:
                self.failed_phase = "detach"
            raise
        try:
            self.hook("_pre_attach_children", a, xs)
            for x in xs:
                self.set_parent(x, a)
            self.hook("_post_attach_children", a, xs)
        except Raised:
            if top and self.failed_phase is None:
                self.failed_phase = "attach"
            try:
                self.set_children(a, old, top=False)
            except Raised:
                if top:
                    self.recovery_raised = True
                raise
            raise

    def run(self, op):
        """-> outcome in {'ok','TreeError','LoopError','TypeError','Veto','UNSPECIFIED'}"""
        try:
            if op[0] == "parent":
                self.set_parent(op[1], op[2])
            elif op[0] == "del":
                try:
                    self.del_children(op[1])
                except Raised:
                    self.failed_phase = "detach"
                    raise
            else:
                self.set_children(op[1], op[2])
        except Raised as r:
            return r.kind
        return "ok"


def invariant(parent, children):
    """C01 on an explicit state; returns None or a description of the breach."""
    n = len(parent)
    for j in range(n):
        cnt = 0
        for i in range(n):
            c = children[i].count(j)
            if c and parent[j] != i:
                return "node %d listed under %d but its parent is %r" % (j, i, parent[j])
            if c > 1:
                return "node %d listed %d times under %d" % (j, c, i)
            cnt += c
        if parent[j] is None and cnt:
            return "root %d is listed as a child" % j
        if parent[j] is not None and cnt != 1:
            return "node %d has parent %r but is listed %d times" % (j, parent[j], cnt)
    for j in range(n):
        i, steps = j, 0
        while i is not None:
            i = parent[i]
            steps += 1
            if steps > n:
                return "parent chain from %d does not end" % j
    return None
