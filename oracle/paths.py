"""Independent interpreters for Resolver.get / Resolver.glob paths (C07, C08).  No anytree, no `re`.

Model: parent[i], children[i], names[i] (already str()-ed path attribute values).
They take the path *string* and split it themselves.
"""

_LOWER = {u"É": u"é"}
for _c in "ABCDEFGHIJKLMNOPQRSTUVWXYZ":
    _LOWER[_c] = _c.lower()


def fold(s):
    return "".join(_LOWER.get(ch, ch) for ch in s)


def eq(a, b, ignorecase):
    return fold(a) == fold(b) if ignorecase else a == b


def wild(name, pat, ignorecase):
    """'*' any run of characters, '?' exactly one character, anything else itself; whole name anchored."""
    if ignorecase:
        name, pat = fold(name), fold(pat)
    memo = {}

    def m(i, j):
        key = (i, j)
        if key in memo:
            return memo[key]
        if j == len(pat):
            r = i == len(name)
        elif pat[j] == "*":
            r = m(i, j + 1) or (i < len(name) and m(i + 1, j))
        elif i < len(name) and (pat[j] == "?" or pat[j] == name[i]):
            r = m(i + 1, j + 1)
        else:
            r = False
        memo[key] = r
        return r

    return m(0, 0)


def is_wildcard(part):
    return "?" in part or "*" in part


def root_of(parent, i):
    while parent[i] is not None:
        i = parent[i]
    return i


def get(parent, children, names, start, path, sep, ignorecase):
    """-> ('ok', node) | ('ResolverError'|'RootResolverError'|'ChildResolverError', None)"""
    parts = path.split(sep)
    node = start
    if path.startswith(sep):
        node = root_of(parent, start)
        parts = parts[1:]
        if parts[0] == "":
            return ("ResolverError", None)
        if not eq(names[node], parts[0], ignorecase):
            return ("ResolverError", None)
        parts = parts[1:]
    for part in parts:
        if part == "..":
            if parent[node] is None:
                return ("RootResolverError", None)
            node = parent[node]
        elif part in ("", "."):
            pass
        else:
            for c in children[node]:
                if eq(names[c], part, ignorecase):
                    node = c
                    break
            else:
                return ("ChildResolverError", None)
    return ("ok", node)


def preorder(children, s):
    out = [s]
    for c in children[s]:
        out.extend(preorder(children, c))
    return out


def glob(parent, children, names, start, path, sep, ignorecase):
    """-> (list of nodes reachable, with multiplicity, in enumeration order; set of dead-end kinds met on some branch)"""
    parts = path.split(sep)
    dead = set()
    node = start
    if path.startswith(sep):
        node = root_of(parent, start)
        parts = parts[1:]
        if parts[0] == "":
            return [], {"root"}
        if not wild(names[node], parts[0], ignorecase):
            return [], {"root"}
        parts = parts[1:]

    def rec(node, k):
        if k == len(parts):
            return [node]
        part = parts[k]
        if part == "..":
            if parent[node] is None:
                dead.add("above")
                return []
            return rec(parent[node], k + 1)
        if part in ("", "."):
            return rec(node, k + 1)
        if part == "**":
            out = []
            for sub in preorder(children, node):
                out.extend(rec(sub, k + 1))
            return out
        out = []
        hit = False
        for c in children[node]:
            if wild(names[c], part, ignorecase):
                hit = True
                out.extend(rec(c, k + 1))
        if not hit and not is_wildcard(part):
            dead.add("child")
        return out

    return rec(node, 0), dead


def dup_allowed(path, sep):
    """duplicates may only appear when a '..' follows a name or wildcard component"""
    parts = path.split(sep)
    if path.startswith(sep):
        parts = parts[2:]
    seen_name = False
    for p in parts:
        if p == "..":
            if seen_name:
                return True
        elif p not in ("", "."):
            seen_name = True
    return False
