"""Mutating API harness: one symbolic call on an arbitrary valid forest (DESIGN 3.3).

Serves C01 (invariant, inductive step), C02 (effect + refusal), C03 (atomicity, known-finding
mask), C16 (hook protocol), C18 (lock-step of the two mixins).
"""
import anytree
from anytree import AnyNode, LightNodeMixin, LoopError, Node, NodeMixin, SymlinkNode, TreeError

from oracle import forest as F
from oracle.forest import NON, NONE, NONITER
from vlib.driver import nontrivial
from vlib.nondet import concrete_region, nondet_bool, nondet_int

from .common import index_of, idx_seq, model_from_pv, pick_parent_vector, real_map


class Veto(RuntimeError):
    """raised by harness hooks; deliberately NOT a TreeError"""


class VetoTree(TreeError):
    """variant: a veto that is a TreeError subclass"""


class VetoAttr(AttributeError):
    """variant: a veto that is an AttributeError subclass (the exception hasattr()/getattr(default) swallow)"""


VETOES = {None: Veto, "tree": VetoTree, "attr": VetoAttr}


class UnwindingError(BaseException):
    pass


class Ctx(object):
    def __init__(self):
        self.nodes = []
        self.log = []
        self.args = []  # (argument object, snapshot) of *_children hooks
        self.fault = None
        self.k = 0
        self.active = False


CTX = Ctx()
MAXHOOKS = 400


def _hook_child(name, node, parent):
    c = CTX
    if not c.active:
        return
    nodes = c.nodes
    pc = parent.children
    p = node.parent
    obs = (None if p is None else index_of(nodes, p), any(x is node for x in pc), bool(pc) and pc[-1] is node)
    c.log.append((name, index_of(nodes, node), index_of(nodes, parent), obs))
    _maybe_fault(name)


def _hook_children(name, node, children):
    c = CTX
    if not c.active:
        return
    nodes = c.nodes
    snap = tuple(idx_seq(nodes, children))
    c.args.append((children, snap))
    c.log.append((name, index_of(nodes, node), snap, (tuple(idx_seq(nodes, node.children)),)))
    _maybe_fault(name)


def _maybe_fault(name):
    c = CTX
    k = c.k
    c.k = k + 1
    if k >= MAXHOOKS:
        raise UnwindingError("more than %d hook invocations in one call" % MAXHOOKS)
    if c.fault is not None and c.fault(k, name):
        raise c.exc("veto at hook #%d %s" % (k, name))


class _Hooks(object):
    __slots__ = ()

    def _pre_detach(self, parent):
        _hook_child("_pre_detach", self, parent)

    def _post_detach(self, parent):
        _hook_child("_post_detach", self, parent)

    def _pre_attach(self, parent):
        _hook_child("_pre_attach", self, parent)

    def _post_attach(self, parent):
        _hook_child("_post_attach", self, parent)

    def _pre_detach_children(self, children):
        _hook_children("_pre_detach_children", self, children)

    def _post_detach_children(self, children):
        _hook_children("_post_detach_children", self, children)

    def _pre_attach_children(self, children):
        _hook_children("_pre_attach_children", self, children)

    def _post_attach_children(self, children):
        _hook_children("_post_attach_children", self, children)


class M(_Hooks, NodeMixin):
    def __init__(self, i):
        self.i = i


class L(_Hooks, LightNodeMixin):
    __slots__ = ("i",)

    def __init__(self, i):
        self.i = i


class _AllEqual(object):
    """value/container semantics a user class may have: every instance compares equal, is empty and falsy"""

    __slots__ = ()

    def __eq__(self, other):
        return True

    def __ne__(self, other):
        return False

    def __hash__(self):
        return 7

    def __len__(self):
        return 0

    def __bool__(self):
        return False


class ME(_AllEqual, _Hooks, NodeMixin):
    def __init__(self, i):
        self.i = i


class LE(_AllEqual, _Hooks, LightNodeMixin):
    __slots__ = ("i",)

    def __init__(self, i):
        self.i = i


class HNode(_Hooks, Node):
    def __init__(self, i):
        Node.__init__(self, "n%d" % i)
        self.i = i


class HAny(_Hooks, AnyNode):
    def __init__(self, i):
        AnyNode.__init__(self, i=i)


class _Target(object):
    pass


class HSym(_Hooks, SymlinkNode):
    def __init__(self, i):
        SymlinkNode.__init__(self, _Target())
        self.i = i  # forwarded to the target


def _mixed(i):
    """a forest mixing both mixin flavours: even indices NodeMixin-based, odd indices LightNodeMixin-based"""
    return M(i) if i % 2 == 0 else L(i)


class HNodeF(_AllEqual, _Hooks, Node):
    """a library Node subclass with value/container semantics (all equal, empty, falsy)"""

    def __init__(self, i):
        Node.__init__(self, "n%d" % i)
        self.i = i


CLASSES = {"mixin": (M, "mixin"), "light": (L, "light"), "mixin_eq": (ME, "mixin"), "light_eq": (LE, "light"), "mixed": (_mixed, "light"), "node_eq": (HNodeF, "mixin"), "node": (HNode, "mixin"), "anynode": (HAny, "mixin"), "symlink": (HSym, "mixin")}


class NotANode(object):
    children = ()
    parent = None

    def iter_path_reverse(self):
        return iter(())


def classify(exc):
    if exc is None:
        return "ok"
    if isinstance(exc, (Veto, VetoTree, VetoAttr)):
        return "Veto"
    if isinstance(exc, LoopError):
        return "LoopError"
    if isinstance(exc, TreeError):
        return "TreeError"
    if isinstance(exc, TypeError):
        return "TypeError"
    if isinstance(exc, AssertionError):
        return "AssertionError"
    return "Other:" + type(exc).__name__


def pick_forest(cfg):
    n = cfg["N"] if cfg.get("exactN") else nondet_int(1, cfg["N"], "n")
    pv = pick_parent_vector(n, forest=True)
    return n, pv


def pick_op(cfg, n, family):
    """-> op tuple over indices (see oracle.forest)"""
    kinds = cfg.get("ops", ("parent", "children", "del"))
    kind = kinds[nondet_int(0, len(kinds) - 1, "op")]
    a = nondet_int(0, n - 1, "a")
    allow_non = family == "mixin" and cfg.get("non_node", True)
    if kind == "parent":
        b = nondet_int(-1, n if allow_non else n - 1, "b")
        return ("parent", a, None if b < 0 else (NON if b == n else b))
    if kind == "del":
        return ("del", a)
    ln = nondet_int(-1 if cfg.get("noniter", True) else 0, cfg.get("L", 3), "len")
    if ln < 0:
        return ("children", a, NONITER)
    xs = []
    for j in range(ln):
        x = nondet_int(0, n + 1 if allow_non else n - 1, "x%d" % j)
        xs.append(NON if x == n else (NONE if x == n + 1 else x))
    return ("children", a, tuple(xs))


def build_forest(cls, pv, touched):
    nodes = [cls(i) for i in range(len(pv))]
    for i, p in enumerate(pv):
        if p >= 0:
            nodes[i].parent = nodes[p]
    if touched:
        for nd in nodes:
            nd.children
            if nd.parent is None:
                nd.parent = type(nd)(-1)  # a scratch node of the same flavour
                nd.parent = None
    return nodes


def do_call(nodes, op, as_iter=None):
    """perform op on the real nodes; returns the escaped exception or None"""
    non = NotANode()
    a = nodes[op[1]]
    try:
        if op[0] == "parent":
            b = op[2]
            a.parent = None if b is None else (non if b == NON else nodes[b])
        elif op[0] == "del":
            del a.children
        else:
            xs = op[2]
            if xs == NONITER:
                a.children = 5
            else:
                seq = [non if x == NON else (None if x == NONE else nodes[x]) for x in xs]
                a.children = seq if as_iter is None else as_iter(seq)
    except (Exception, AssertionError) as exc:
        return exc
    return None


class FaultPlan(object):
    """Lazy fault schedule: hooks ask; answers are solver-chosen Booleans (or replayed)."""

    def __init__(self, cfg, replay=None, fallback=False):
        self.fallback = fallback
        self.which = cfg.get("faults", "none")  # none | pre | post | all
        self.maxf = cfg.get("F", 1)
        self.allow_persistent = cfg.get("persistent", True)
        self.replay = replay
        self.answers = []
        self.nf = 0
        self.persistent = False
        self.diverged = False

    def __call__(self, k, name):
        if self.replay is not None:
            if k < len(self.replay):
                self.answers.append(self.replay[k])
                return self.replay[k]
            self.diverged = True
            if not self.fallback:
                return False
        ans = self._decide(name)
        self.answers.append(ans)
        return ans

    def _eligible(self, name):
        if self.which == "none":
            return False
        is_pre = name.startswith("_pre")
        return self.which == "all" or (self.which == "pre" and is_pre) or (self.which == "post" and not is_pre)

    def _decide(self, name):
        if not self._eligible(name):
            return False
        if self.persistent:
            return True
        if self.nf >= self.maxf:
            return False
        if nondet_bool("fault"):
            self.nf += 1
            if self.allow_persistent and self.nf == 1 and nondet_bool("persistent"):
                self.persistent = True
            return True
        return False


def run_real(clsname, pv, touched, op, plan, exc_cls=Veto, as_iter=None):
    cls, family = CLASSES[clsname]
    c = CTX
    c.active = False
    nodes = build_forest(cls, pv, touched)
    c.nodes = nodes
    c.log = []
    c.args = []
    c.k = 0
    c.fault = plan
    c.exc = exc_cls
    c.active = True
    try:
        exc = do_call(nodes, op, as_iter)
    finally:
        c.active = False
    return nodes, exc, list(c.log), list(c.args)


def real_invariant(nodes):
    """C01 read off the real objects (identity only)."""
    n = len(nodes)
    par, chi = real_map(nodes)
    for i in range(n):
        if -1 in chi[i]:
            return "node %d has a child that is not one of the nodes" % i
        if par[i] == -1:
            return "node %d has a parent that is not one of the nodes" % i
        if type(nodes[i].children) is not tuple:
            return "children is not a tuple"
    return F.invariant(par, chi)


# ------------------------------------------------------------------------------ obligations

def _setup(cfg):
    clsname = cfg.get("cls", "mixin")
    family = CLASSES[clsname][1]
    n, pv = pick_forest(cfg)
    parent, children = model_from_pv(pv)
    op = pick_op(cfg, n, family)
    return clsname, family, n, pv, parent, children, None, op


def variants(clsname, pv, op, cfg, exc_cls=Veto):
    """The call on both attribute-representation variants of the same forest (nodes that never had a
    parent / never had their children read lack the private attributes; 'touched' nodes have them).
    The second run re-uses the fault answers of the first, asking the solver only if it fires more hooks."""
    plan = FaultPlan(cfg)
    nodes, exc, log, args = run_real(clsname, pv, False, op, plan, exc_cls)
    yield False, plan, nodes, exc, log, args
    plan2 = FaultPlan(cfg, replay=list(plan.answers), fallback=True)
    plan2.nf = 0
    nodes, exc, log, args = run_real(clsname, pv, True, op, plan2, exc_cls)
    yield True, plan2, nodes, exc, log, args


def c02_body(cfg):
    """C02: effect of a successful call == functional oracle; refused iff it must be, with that class.
    Both attribute-representation variants (untouched / touched nodes) are run inside the path."""
    clsname, family, n, pv, parent, children, touched, op = _setup(dict(cfg, variants=False))
    with concrete_region():
        exp, eparent, echildren = F.apply_functional(parent, children, op, family)
        if exp == "UNSPECIFIED":
            return True
        if exp == "ok" and (eparent != parent or echildren != children):
            nontrivial()
        for touched in (False, True):
            nodes, exc, log, args = run_real(clsname, pv, touched, op, FaultPlan({"faults": "none"}))
            got = classify(exc)
            if got != exp:
                return {"why": "outcome class", "pv": pv, "op": op, "touched": touched, "got": got, "exp": exp, "exc": repr(exc)}
            if exp == "ok":
                rp, rc = real_map(nodes)
                if (rp, rc) != (eparent, echildren):
                    return {"why": "post-state differs from the specified effect", "pv": pv, "op": op, "touched": touched,
                            "got": [rp, rc], "exp": [eparent, echildren]}
        if op[0] == "children" and op[2] != NONITER and exp == "ok":
            # any iterable is accepted: a generator gives the same result
            nodes, exc, log, args = run_real(clsname, pv, False, op, FaultPlan({"faults": "none"}), as_iter=iter)
            if classify(exc) != "ok" or real_map(nodes) != (eparent, echildren):
                return {"why": "iterator argument behaves differently from a list", "pv": pv, "op": op}
    return True


def _known_c03(model, op, pre, post_real):
    """family id of the listed finding this outcome belongs to, or None."""
    mpost = (model.parent, model.children)
    if post_real != mpost:
        return None
    if not model.changes_at_failure:  # failure before the first link change must be atomic
        return None
    if op[0] == "parent":
        return "F9"
    if op[0] == "del":
        return "F2"
    if model.failed_phase == "detach":
        return "F2"
    return "F3" if model.recovery_raised else "F1"


def c03_body(cfg):
    """C03: a call that raises (invalid argument or pre-hook veto) leaves every parent and every ordered
    children tuple as before.  Listed findings F1/F2/F3/F9 are recognised by exact modelled outcome."""
    clsname, family, n, pv, parent, children, _, op = _setup(cfg)
    exc_cls = VETOES[cfg.get("veto")]
    if F.refusal(parent, children, op, family) == "UNSPECIFIED":
        return True
    known = None
    with concrete_region():
        for touched, plan, nodes, exc, log, args in variants(clsname, pv, op, cfg, exc_cls):
            got = classify(exc)
            if got == "ok":
                continue
            nontrivial()
            if got not in ("Veto", "LoopError", "TreeError", "TypeError"):
                return {"why": "unexpected exception class", "pv": pv, "op": op, "touched": touched, "exc": repr(exc)}
            post = real_map(nodes)
            if post == (parent, children):
                continue
            answers = list(plan.answers)
            model = F.Operational(parent, children, family, lambda k, name: answers[k] if k < len(answers) else False)
            mout = model.run(op)
            fam = _known_c03(model, op, (parent, children), post)
            if fam is not None and "%s/%s" % (fam, family) in cfg.get("mask", ()) and mout != "ok":
                known = "KNOWN:" + fam
                continue
            return {"why": "forest changed by a call that raised", "pv": pv, "op": op, "touched": touched, "exc": repr(exc), "faults": answers,
                    "before": [parent, children], "after": list(post), "protocol_model_after": [model.parent, model.children],
                    "would_be_family": fam}
    return known or True


def c01_body(cfg):
    """C01: after ANY call (success, refusal, veto at any hook incl. post hooks, persistent vetoes) the two
    views agree, chains end, no AssertionError, only the documented exception classes escape."""
    clsname, family, n, pv, parent, children, _, op = _setup(cfg)
    exc_cls = VETOES[cfg.get("veto")]
    if F.refusal(parent, children, op, family) == "UNSPECIFIED":
        return True
    if clsname == "mixed" and any(p >= 0 and p % 2 != i % 2 for i, p in enumerate(pv)):
        return True  # every tree of a reachable pre-state is of one flavour (a cross-flavour attach is always refused)
    with concrete_region():
        for touched, plan, nodes, exc, log, args in variants(clsname, pv, op, cfg, exc_cls):
            got = classify(exc)
            if any(plan.answers) or got != "ok":
                nontrivial()
            allowed = ("ok", "Veto", "LoopError", "TreeError", "TypeError")
            if clsname == "mixed":
                # the current code refuses a cross-flavour attach with AttributeError (private helper of the other
                # mixin); C01 only demands that the forest stays consistent whatever is raised
                allowed = allowed + ("Other:AttributeError",)
            if got not in allowed:
                return {"why": "unexpected exception class", "pv": pv, "op": op, "touched": touched, "exc": repr(exc), "faults": list(plan.answers)}
            bad = real_invariant(nodes)
            if bad:
                return {"why": "inconsistent forest: " + bad, "pv": pv, "op": op, "touched": touched, "exc": repr(exc),
                        "faults": list(plan.answers), "after": list(real_map(nodes))}
    return True


def c16_body(cfg):
    """C16: hook log (which hook, on which node, with which argument, observing which state) == protocol model."""
    clsname, family, n, pv, parent, children, _, op = _setup(cfg)
    if F.refusal(parent, children, op, family) == "UNSPECIFIED":
        return True
    if op[0] != "parent":
        cfg = dict(cfg, faults="none")  # C16 speaks about raising post hooks of a parent assignment only
    with concrete_region():
        for touched, plan, nodes, exc, log, args in variants(clsname, pv, op, cfg):
            got = classify(exc)
            answers = list(plan.answers)
            model = F.Operational(parent, children, family, lambda k, name: answers[k] if k < len(answers) else False)
            mout = model.run(op)
            if model.log:
                nontrivial()
            if got != mout:
                return {"why": "outcome differs from protocol", "pv": pv, "op": op, "touched": touched, "got": got, "exp": mout, "exc": repr(exc)}
            if log != model.log:
                return {"why": "hook log differs", "pv": pv, "op": op, "touched": touched, "faults": answers, "got": log, "exp": model.log}
            for obj, snap in args:
                if tuple(idx_seq(nodes, obj)) != snap:
                    return {"why": "*_children hook argument changed after the hook was called (live list instead of a snapshot)", "pv": pv, "op": op}
            post = real_map(nodes)
            if post != (model.parent, model.children):
                return {"why": "post-state differs from protocol", "pv": pv, "op": op, "touched": touched, "faults": answers, "got": list(post),
                        "exp": [model.parent, model.children]}
            if not touched and op[0] == "children" and op[2] != NONITER and not any(answers):
                # xs given as a one-shot iterator: the same hooks with the same arguments
                n2, e2, log2, _ = run_real(clsname, pv, False, op, FaultPlan({"faults": "none"}), as_iter=iter)
                if classify(e2) != got or log2 != model.log:
                    return {"why": "hook log differs when the children are given as an iterator", "pv": pv, "op": op, "got": log2, "exp": model.log}
    return True


def c18_body(cfg):
    """C18: NodeMixin-based and LightNodeMixin-based classes in lock-step on the same forest, call and
    fault schedule: same exception class, same post-state, same hook log; then the same read-only results."""
    from . import queries

    n, pv = pick_forest(cfg)
    parent, children = model_from_pv(pv)
    op = pick_op(dict(cfg, non_node=False), n, "light")
    with concrete_region():
        for touched, plan, nodes_a, exc_a, log_a, _ in variants(cfg.get("mixcls", "mixin"), pv, op, cfg):
            plan_b = FaultPlan(cfg, replay=list(plan.answers))
            nodes_b, exc_b, log_b, _ = run_real(cfg.get("lightcls", "light"), pv, touched, op, plan_b)
            if log_a:
                nontrivial()
            if classify(exc_a) != classify(exc_b):
                return {"why": "exception class differs", "pv": pv, "op": op, "mixin": repr(exc_a), "light": repr(exc_b)}
            if log_a != log_b or plan_b.diverged:
                return {"why": "hook invocations differ", "pv": pv, "op": op, "faults": list(plan.answers), "mixin": log_a, "light": log_b}
            ma, mb = real_map(nodes_a), real_map(nodes_b)
            if ma != mb:
                return {"why": "post-state differs", "pv": pv, "op": op, "faults": list(plan.answers), "mixin": list(ma), "light": list(mb)}
            if not touched and op[0] == "children" and op[2] != NONITER and cfg.get("faults", "none") == "none":
                # the same call with a one-shot iterable instead of a list
                na, ea, la, _ = run_real(cfg.get("mixcls", "mixin"), pv, False, op, FaultPlan({"faults": "none"}), as_iter=iter)
                nb, eb, lb, _ = run_real(cfg.get("lightcls", "light"), pv, False, op, FaultPlan({"faults": "none"}), as_iter=iter)
                if classify(ea) != classify(eb) or la != lb or real_map(na) != real_map(nb):
                    return {"why": "iterator argument: the two mixins differ", "pv": pv, "op": op, "mixin": [repr(ea), list(real_map(na))], "light": [repr(eb), list(real_map(nb))]}
            if not touched and real_invariant(nodes_a) is None:
                qa = queries.all_queries(nodes_a)
                qb = queries.all_queries(nodes_b)
                if qa != qb:
                    d = [k for k in qa if qa[k] != qb.get(k)]
                    return {"why": "read-only query differs", "pv": pv, "op": op, "query": d[:3], "mixin": [qa[k] for k in d[:3]], "light": [qb[k] for k in d[:3]]}
    return True


def ctor_body(cfg):
    """C02, last clause: Node/AnyNode/SymlinkNode(parent=b, children=xs) on an existing forest behaves like
    creating the node and then assigning parent and (if non-empty) children, including refusals."""
    kind = cfg.get("cls", "node")
    n, pv = pick_forest(cfg)
    parent, children = model_from_pv(pv)
    b = nondet_int(-1, n + 1, "b")
    zero_parent = b == n + 1  # the falsy non-node value 0 as parent
    b = None if b < 0 else (NON if b >= n else b)
    ln = nondet_int(0, cfg.get("L", 2), "len")
    xs = []
    for j in range(ln):
        x = nondet_int(0, n, "x%d" % j)
        xs.append(NON if x == n else x)
    xs = tuple(xs)
    with concrete_region():
        base = {"node": HNode, "anynode": HAny, "symlink": HSym}[kind]
        if cfg.get("valsem"):
            base = HNodeF  # the existing nodes are falsy / all-equal library Nodes
        nodes = build_forest(base, pv, False)
        non = 0 if zero_parent else NotANode()
        rb = None if b is None else (non if b == NON else nodes[b])
        rxs = [non if x == NON else nodes[x] for x in xs]
        exc = None
        new = None
        try:
            if kind == "node":
                new = Node("new", parent=rb, children=rxs)
            elif kind == "anynode":
                new = AnyNode(parent=rb, children=rxs)
            else:
                new = SymlinkNode(nodes[0], parent=rb, children=rxs)
        except Exception as e:
            exc = e
        # model: fresh root n, then parent=, then children= (only if non-empty)
        mp = list(parent) + [None]
        mc = [list(c) for c in children] + [[]]
        out, mp, mc = F.apply_functional(mp, mc, ("parent", n, b), "mixin")
        if out == "ok" and xs:
            out2, mp2, mc2 = F.apply_functional(mp, mc, ("children", n, xs), "mixin")
            if out2 == "ok":
                mp, mc = mp2, mc2
            elif out2 == "LoopError":
                return True  # refused after link changes: post-state is C03's subject (known findings), class checked below would need the object
            out = out2
        got = classify(exc)
        if out == "ok" and (b is not None or xs):
            nontrivial()
        if got != out:
            return {"why": "constructor outcome differs from the assignments", "pv": pv, "b": b, "xs": xs, "got": got, "exp": out, "exc": repr(exc)}
        if out == "ok":
            allnodes = nodes + [new]
            if real_map(allnodes) != (mp, mc):
                return {"why": "constructor effect differs from the assignments", "pv": pv, "b": b, "xs": xs, "got": list(real_map(allnodes)), "exp": [mp, mc]}
        elif out == "TreeError" and b == NON:
            if real_map(nodes) != (parent, children):
                return {"why": "refused constructor changed the forest", "pv": pv}
    return True


def hist_body(cfg):
    """C02/C01 over short histories: K successive calls (no faults) from a symbolic forest; after EVERY call the
    outcome class and - for successful calls - the whole forest equal the functional model, and the invariant
    holds.  States reached by real calls (detached nodes, emptied children lists, re-ordered siblings) are thereby
    pre-states of the next call, which complements the single-step obligations' generated pre-states."""
    clsname = cfg.get("cls", "mixin")
    family = CLASSES[clsname][1]
    n, pv = pick_forest(cfg)
    parent, children = model_from_pv(pv)
    ops = [pick_op(dict(cfg, noniter=False), n, family) for _ in range(cfg["K"])]
    with concrete_region():
        cls = CLASSES[clsname][0]
        CTX.active = False
        nodes = build_forest(cls, pv, False)
        changed = 0
        for k, op in enumerate(ops):
            exp, eparent, echildren = F.apply_functional(parent, children, op, family)
            if exp == "UNSPECIFIED":
                return True
            exc = do_call(nodes, op)
            got = classify(exc)
            if got != exp:
                return {"why": "outcome class at step %d" % k, "pv": pv, "ops": ops, "got": got, "exp": exp, "exc": repr(exc)}
            if exp == "ok":
                if (eparent, echildren) != (parent, children):
                    changed += 1
                parent, children = eparent, echildren
                if real_map(nodes) != (parent, children):
                    return {"why": "forest after step %d differs from the specified effect" % k, "pv": pv, "ops": ops,
                            "got": list(real_map(nodes)), "exp": [parent, children]}
            else:
                post = real_map(nodes)
                if post != (parent, children):
                    if exp == "LoopError" and op[0] == "children":
                        return True  # refused after link changes (listed finding F1): the history ends here
                    return {"why": "refused call at step %d changed the forest" % k, "pv": pv, "ops": ops}
            bad = real_invariant(nodes)
            if bad:
                return {"why": "inconsistent forest after step %d: %s" % (k, bad), "pv": pv, "ops": ops}
        if changed >= 2:
            nontrivial()
    return True


EVICT = [False]


class MR(NodeMixin):
    """a legal re-entrant hook: before a node is attached, the new parent's first child is evicted"""

    def __init__(self, i):
        self.i = i

    def _pre_attach(self, parent):
        if EVICT[0] and parent.children:
            parent.children[0].parent = None


class LR(LightNodeMixin):
    __slots__ = ("i",)

    def __init__(self, i):
        self.i = i

    def _pre_attach(self, parent):
        if EVICT[0] and parent.children:
            parent.children[0].parent = None


def reentrant_body(cfg):
    """C02/C16/C18 with a tree-mutating hook: `n.parent = p` where n's _pre_attach detaches p's first child.
    Effect per the statements: the evicted child is a root, n is the LAST child of p, nothing else changes;
    both mixins agree."""
    n, pv = pick_forest(cfg)
    parent, children = model_from_pv(pv)
    a = nondet_int(0, n - 1, "a")
    b = nondet_int(0, n - 1, "b")
    op = ("parent", a, b)
    if F.refusal(parent, children, op, "light") is not None or parent[a] == b:
        return True
    with concrete_region():
        out, p1, c1 = F.apply_functional(parent, children, ("parent", a, None), "light")
        evicted = None
        if c1[b]:
            evicted = c1[b][0]
            p1[evicted] = None
            c1[b] = c1[b][1:]
        c1[b] = c1[b] + [a]
        p1[a] = b
        if evicted is not None:
            nontrivial()
        res = {}
        for name, cls in (("mixin", MR), ("light", LR)):
            EVICT[0] = False
            nodes = build_forest(cls, pv, False)
            EVICT[0] = True
            try:
                exc = do_call(nodes, op)
            finally:
                EVICT[0] = False
            if exc is not None:
                return {"why": "call with a re-entrant _pre_attach hook raised", "class": name, "pv": pv, "op": op, "exc": repr(exc)}
            got = real_map(nodes)
            if got != (p1, c1):
                return {"why": "effect of parent= with a hook that evicts a sibling", "class": name, "pv": pv, "op": op, "got": list(got), "exp": [p1, c1]}
            res[name] = got
    return True
