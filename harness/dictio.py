"""C10 (DictExporter/DictImporter) and C11 (JsonExporter/JsonImporter)."""
import copy
import io
import json
from collections import OrderedDict

from anytree import AnyNode, Node, NodeMixin
from anytree.exporter import DictExporter, JsonExporter
from anytree.importer import DictImporter, JsonImporter

from vlib.driver import nontrivial
from vlib.nondet import concrete_region, nondet_bool, nondet_int, nondet_sym

from .common import index_of, model_from_pv, pick_parent_vector


class U(NodeMixin):
    def __init__(self, parent=None, **kw):
        self.__dict__.update(kw)
        self.parent = parent


class UF(NodeMixin):
    """user class with container semantics: empty and falsy (and all instances equal)"""

    def __init__(self, parent=None, **kw):
        self.__dict__.update(kw)
        self.parent = parent

    def __len__(self):
        return 0

    def __eq__(self, other):
        return True

    def __hash__(self):
        return 2


KEYS = ["a", "depth", "b", "x_1", "_p", "size", "Z"]  # incl. names of read-only NodeMixin properties
BOOK = ("_NodeMixin__children", "_NodeMixin__parent")


def same(a, b):
    """pass-through values: identical object, or equal (identity first: no solver fork for symbolic values)"""
    return a is b or (type(a) is type(b) and a == b)


class Sentinel(object):
    """an attribute value with identity-only equality"""


def sym_value(i, j, vrot):
    k = (i + j + vrot) % 5
    if k == 4:
        return Sentinel()
    if k == 0:
        return nondet_sym(int, "iv%d_%d" % (i, j))
    if k == 1:
        return nondet_sym(str, "sv%d_%d" % (i, j))
    if k == 2:
        return nondet_sym(bool, "bv%d_%d" % (i, j))
    return None


def pick_tree(cfg, symbolic_values=True):
    n = nondet_int(1, cfg["N"], "n")
    pv = pick_parent_vector(n)
    parent, children = model_from_pv(pv)
    layout = nondet_int(0, 6, "attr_layout")  # which nodes get how many attributes, which keys, which value kinds
    rot, k0, vrot = layout % 3, layout % len(KEYS), layout % 5
    attrs = []
    for i in range(n):
        d = OrderedDict()
        for j in range((i + rot) % 3):
            d[KEYS[(k0 + i + j) % len(KEYS)]] = sym_value(i, j, vrot) if symbolic_values else None
        attrs.append(d)
    return n, pv, parent, children, attrs


def make_nodes(clsname, pv, attrs):
    nodes = []
    for i, p in enumerate(pv):
        par = nodes[p] if p >= 0 else None
        if clsname == "anynode":
            nodes.append(AnyNode(parent=par, **attrs[i]))
        elif clsname == "node":
            nodes.append(Node("n%d" % i, parent=par, **attrs[i]))
        elif clsname == "userfalsy":
            nodes.append(UF(parent=par, **attrs[i]))
        else:
            nodes.append(U(parent=par, **attrs[i]))
    return nodes


def node_attrs(clsname, attrs, i):
    """expected exported (key, value) pairs of node i in __dict__ insertion order"""
    items = list(attrs[i].items())
    if clsname == "node":
        items = items + [("name", "n%d" % i)]  # Node.__init__: kwargs first, then name
    return items


def expected_export(clsname, children, attrs, s, maxlevel, attr_order, child_order, depth=0):
    items = attr_order(node_attrs(clsname, attrs, s))
    out = [("attrs", items)]
    kids = []
    if maxlevel is None or depth + 1 < maxlevel:
        kids = [expected_export(clsname, children, attrs, c, maxlevel, attr_order, child_order, depth + 1) for c in child_order(children[s])]
    return (items, kids)


def check_export(got, exp, dictcls, ordered):
    """got: exporter output; exp: (items, kids).  Returns None or a reason."""
    items, kids = exp
    if type(got) is not dictcls:
        return "not a %s" % dictcls.__name__
    keys = [k for k in got.keys() if k != "children"]
    if sorted(keys) != sorted(k for k, _ in items) or len(keys) != len(items):
        return "attribute keys differ: %r vs %r" % (keys, [k for k, _ in items])
    if ordered and keys != [k for k, _ in items]:
        return "attribute order not as attriter gave it: %r" % (keys,)
    for k, v in items:
        if not same(got[k], v):
            return "value of %r differs" % k
    if kids:
        if "children" not in got or type(got["children"]) is not list or len(got["children"]) != len(kids):
            return "children list missing or of wrong length"
        for g, e in zip(got["children"], kids):
            r = check_export(g, e, dictcls, ordered)
            if r:
                return r
    elif "children" in got:
        return "'children' present although empty"
    return None


def export_body(cfg):
    """DictExporter.export == oracle dictionary for every option combination (attriter x childiter x dictcls),
    symbolic attribute values, maxlevel None or any int; node __dict__s untouched."""
    clsname = cfg.get("cls", "anynode")
    n, pv, parent, children, attrs = pick_tree(cfg)
    s = nondet_int(0, n - 1, "start")
    maxlevel = nondet_sym(int, "maxlevel") if nondet_bool("maxlevel_given") else None
    nodes = make_nodes(clsname, pv, attrs)
    before = [dict((k, v) for k, v in nd.__dict__.items() if k not in BOOK) for nd in nodes]
    dropm = {}

    def dropped(i):
        if i not in dropm:
            dropm[i] = nondet_bool("drop%d" % i)
        return dropm[i]

    attriters = [
        ("none", None, lambda items: list(items), False),
        ("sorted", lambda av: sorted(av, key=lambda kv: kv[0]), lambda items: sorted(items, key=lambda kv: kv[0]), True),
        ("nopriv", lambda av: [(k, v) for k, v in av if not k.startswith("_")], lambda items: [(k, v) for k, v in items if not k.startswith("_")], True),
    ]
    childiters = [
        ("list", list, list),
        ("reversed", lambda ch: list(reversed(ch)), lambda xs: list(reversed(xs))),
        ("filter", lambda ch: [c for c in ch if not dropped(index_of(nodes, c))], lambda xs: [x for x in xs if not dropped(x)]),
    ]
    if n >= 3:
        nontrivial()
    combos = [(0, 0, dict), (1, 1, OrderedDict), (2, 2, dict), (1, 2, OrderedDict), (0, 1, dict), (2, 0, OrderedDict)]
    for ai, ci, dictcls in combos:
        an, a_real, a_model, ordered = attriters[ai]
        cn, c_real, c_model = childiters[ci]
        exporter = DictExporter(dictcls=dictcls, attriter=a_real, childiter=c_real, maxlevel=maxlevel)
        got = exporter.export(nodes[s])
        exp = expected_export(clsname, children, attrs, s, maxlevel, a_model, c_model)
        r = check_export(got, exp, dictcls, an == "sorted")
        if r:
            return {"why": r, "attriter": an, "childiter": cn, "dictcls": dictcls.__name__, "pv": pv, "start": s, "got": repr(got)}
    default = DictExporter().export(nodes[s])
    r = check_export(default, expected_export(clsname, children, attrs, s, None, list, list), dict, False)
    if r:
        return {"why": "default exporter: " + r, "pv": pv, "start": s}
    for nd, b in zip(nodes, before):
        if [k for k in nd.__dict__ if k not in BOOK] != list(b.keys()) or any(nd.__dict__[k] is not b[k] for k in b):
            return {"why": "export modified a node's __dict__"}
    return True


def build_dict(children, attrs, s, explicit_empty, clsname):
    d = OrderedDict() if s % 2 else {}
    for k, v in attrs[s].items():
        d[k] = v
    if clsname == "node":
        d["name"] = "n%d" % s
    if children[s]:
        d["children"] = [build_dict(children, attrs, c, explicit_empty, clsname) for c in children[s]]
    elif explicit_empty:
        d["children"] = []
    return d


def snapshot(d):
    return (type(d), [(k, (snapshot_list(v) if k == "children" else ("v", id(v)))) for k, v in d.items()])


def snapshot_list(lst):
    return (id(lst), [(id(x), snapshot(x)) for x in lst])


def check_tree(node, children, attrs, s, cls, clsname, parent_obj):
    """imported tree rooted at node is isomorphic to the model below s"""
    if type(node) is not cls:
        return "node is not an instance of nodecls"
    if node.parent is not parent_obj:
        return "wrong parent"
    pub = [(k, v) for k, v in node.__dict__.items() if k not in BOOK]
    exp = list(attrs[s].items()) + ([("name", "n%d" % s)] if clsname == "node" else [])
    if sorted(k for k, _ in pub) != sorted(k for k, _ in exp):
        return "attributes differ: %r vs %r" % ([k for k, _ in pub], [k for k, _ in exp])
    for k, v in exp:
        if not same(node.__dict__[k], v):
            return "attribute value %r differs" % k
    kids = node.children
    if len(kids) != len(children[s]):
        return "number of children differs"
    for kid, c in zip(kids, children[s]):
        r = check_tree(kid, children, attrs, c, cls, clsname, node)
        if r:
            return r
    return None


def import_body(cfg):
    """DictImporter.import_ builds an isomorphic tree of nodecls instances from any nested dictionary and does
    not modify its argument; export(import_(d)) == d up to empty 'children' lists; import_(export(t)) ~ t."""
    clsname = ("anynode", "node", "user", "userfalsy")[nondet_int(0, 3, "nodecls")]
    cls = {"anynode": AnyNode, "node": Node, "user": U, "userfalsy": UF}[clsname]
    n, pv, parent, children, attrs = pick_tree(cfg)
    explicit_empty = nondet_bool("explicit_empty_children")
    d = build_dict(children, attrs, 0, explicit_empty, clsname)
    snap = snapshot(d)
    if n >= 3:
        nontrivial()
    imp = DictImporter(nodecls=cls) if clsname != "anynode" or nondet_bool("explicit_nodecls") else DictImporter()
    root = imp.import_(d)
    if snapshot(d) != snap:
        return {"why": "import_ modified its argument", "pv": pv}
    r = check_tree(root, children, attrs, 0, cls, clsname, None)
    if r:
        return {"why": "imported tree: " + r, "pv": pv, "nodecls": clsname}
    # export(import_(d)) == d modulo empty children lists
    back = DictExporter().export(root)
    exp = expected_export(clsname, children, attrs, 0, None, list, list)
    if clsname == "node":
        # Node.__init__ stores name last whatever the key order of d
        pass
    r = check_export(back, exp, dict, False)
    if r:
        return {"why": "export(import_(d)): " + r, "pv": pv, "nodecls": clsname}
    # import_(export(t)) ~ t for a tree built through the public constructors
    nodes = make_nodes(clsname, pv, attrs)
    ex = DictExporter().export(nodes[0])
    keep = copy.copy(ex)
    root2 = DictImporter(nodecls=cls).import_(ex)
    r = check_tree(root2, children, attrs, 0, cls, clsname, None)
    if r:
        return {"why": "import_(export(t)): " + r, "pv": pv, "nodecls": clsname}
    if any(root2 is nd for nd in nodes):
        return {"why": "import returned an original node"}
    return True


# ------------------------------------------------------------------------------------- C11

JVALUES = ["", u"é", " ", "\"\\", "\x00\x1f", 1, True, 1.0, 0, False, 0.0, -1, 2 ** 63, 1.5, -0.0, 1e-7, 1e22, True, False, None, [1, [2, "x"]], {"k": [None]}, {"children": None}, {"children": [], "parent": 0}, [{"children": False}],
           u"line sep ", u"\x85", "a\nb\tc", u"\U0001f600", [], {}, "trailing ", -(2 ** 70), 1e308]

JOPTIONS = [
    {}, {"indent": 0}, {"indent": 2}, {"sort_keys": True}, {"ensure_ascii": False}, {"separators": (",", ":")},
    {"indent": 2, "ensure_ascii": False}, {"indent": 1, "separators": (", ", ": ")}, {"ensure_ascii": False, "sort_keys": True, "indent": 4},
    {"indent": "\t"},
]
JKEYS = ["a", "b", u"ké", "Z"]


def jsame(a, b):
    if type(a) is not type(b):
        return False
    if isinstance(a, float):
        return repr(a) == repr(b)
    if isinstance(a, list):
        return len(a) == len(b) and all(jsame(x, y) for x, y in zip(a, b))
    if isinstance(a, dict):
        return list(a.keys()) == list(b.keys()) and all(jsame(a[k], b[k]) for k in a)
    return a == b


def jcheck_tree(node, children, attrs, s, cls, depth, maxlevel, parent_obj):
    if type(node) is not cls:
        return "node class"
    if node.parent is not parent_obj:
        return "wrong parent"
    pub = dict((k, v) for k, v in node.__dict__.items() if k not in BOOK)
    if sorted(pub) != sorted(attrs[s]):
        return "attribute keys differ at node %d: %r vs %r" % (s, sorted(pub), sorted(attrs[s]))
    for k, v in attrs[s].items():
        if not jsame(pub[k], v):
            return "attribute %r of node %d: %r != %r" % (k, s, pub[k], v)
    exp_kids = children[s] if (maxlevel is None or depth + 1 < maxlevel) else []
    kids = node.children
    if len(kids) != len(exp_kids):
        return "number of children of node %d" % s
    for kid, c in zip(kids, exp_kids):
        r = jcheck_tree(kid, children, attrs, c, cls, depth + 1, maxlevel, node)
        if r:
            return r
    return None


def json_body(cfg):
    """C11: JsonExporter text == json.dumps(dict export) under every option set; write() emits the same text;
    import_/read rebuild an isomorphic tree with equal values AND value types; custom dict exporter/importer honoured."""
    n = nondet_int(1, cfg["N"], "n")
    pv = pick_parent_vector(n)
    parent, children = model_from_pv(pv)
    s = nondet_int(0, n - 1, "start")
    vshift = nondet_int(0, len(JVALUES) - 1, "value_rotation")
    ml = nondet_int(-1, 3, "maxlevel")
    maxlevel = None if ml < 0 else ml
    with concrete_region():
        attrs = []
        for i in range(n):
            d = OrderedDict()
            for j in range(1 + (i + vshift) % 2):
                d[JKEYS[(i + j + vshift) % len(JKEYS)]] = copy.deepcopy(JVALUES[(vshift + 2 * i + j) % len(JVALUES)])
            attrs.append(d)
        nodes = make_nodes("anynode", pv, attrs)
        if n >= 2:
            nontrivial()
        for kw in JOPTIONS:
            ref_dict = DictExporter(maxlevel=maxlevel).export(nodes[s])
            ref = json.dumps(ref_dict, **kw)
            exporter = JsonExporter(maxlevel=maxlevel, **kw)
            text = exporter.export(nodes[s])
            if type(text) is not str or text != ref:
                return {"why": "export() text != json.dumps(dict export)", "kw": repr(kw), "pv": pv, "start": s, "got": text, "exp": ref}
            fh = io.StringIO()
            exporter.write(nodes[s], fh)
            if fh.getvalue() != ref:
                return {"why": "write() emits different text", "kw": repr(kw), "pv": pv, "got": fh.getvalue(), "exp": ref}
            if exporter.export(nodes[s]) != ref:
                return {"why": "second export differs", "kw": repr(kw)}
            # round trip (import does not depend on the export options)
            eff_ml = None if maxlevel is None else max(maxlevel, 1)
            for how in ("import_", "read"):
                imp = JsonImporter()
                root = imp.import_(text) if how == "import_" else imp.read(io.StringIO(text))
                r = jcheck_tree(root, children, attrs, s, AnyNode, 0, eff_ml, None)
                if r:
                    return {"why": "%s(export(t)) not isomorphic: %s" % (how, r), "kw": repr(kw), "pv": pv, "start": s, "text": text}
        # custom dictexporter is used and maxlevel forwarded to it
        custom = DictExporter(attriter=lambda av: sorted(av, key=lambda kv: kv[0]), childiter=lambda ch: list(reversed(ch)), dictcls=OrderedDict)
        text = JsonExporter(dictexporter=custom, maxlevel=maxlevel).export(nodes[s])
        ref = json.dumps(DictExporter(attriter=lambda av: sorted(av, key=lambda kv: kv[0]), childiter=lambda ch: list(reversed(ch)),
                                      dictcls=OrderedDict, maxlevel=maxlevel).export(nodes[s]))
        if text != ref:
            return {"why": "custom dictexporter not honoured / maxlevel not forwarded", "pv": pv, "start": s, "got": text, "exp": ref}
        # a DictExporter SUBCLASS with its own export() is used as given (and gets maxlevel)

        class TaggingExporter(DictExporter):
            def export(self, node):
                data = DictExporter.export(self, node)
                data["exported_with_maxlevel"] = self.maxlevel
                return data

        text = JsonExporter(dictexporter=TaggingExporter(), maxlevel=maxlevel).export(nodes[s])
        refx = TaggingExporter(maxlevel=maxlevel)
        if text != json.dumps(refx.export(nodes[s])):
            return {"why": "supplied DictExporter subclass not used as given", "pv": pv, "start": s, "got": text}
        # custom dictimporter is used; json.loads kwargs are forwarded
        full = JsonExporter().export(nodes[s])
        root = JsonImporter(dictimporter=DictImporter(nodecls=U)).import_(full)
        r = jcheck_tree(root, children, attrs, s, U, 0, None, None)
        if r:
            return {"why": "custom dictimporter: " + r, "pv": pv}
        # read() consumes the handle from its CURRENT position and needs nothing but .read()
        fh = io.StringIO("# header line\n" + full)
        fh.readline()
        root = JsonImporter().read(fh)
        r = jcheck_tree(root, children, attrs, s, AnyNode, 0, None, None)
        if r:
            return {"why": "read() from a handle positioned after a header line: " + r, "pv": pv}

        class Pipe(object):
            def __init__(self, text):
                self._fh = io.StringIO(text)

            def read(self, *a):
                return self._fh.read(*a)

        root = JsonImporter().read(Pipe(full))
        r = jcheck_tree(root, children, attrs, s, AnyNode, 0, None, None)
        if r:
            return {"why": "read() from a non-seekable stream: " + r, "pv": pv}
        root = JsonImporter(parse_int=float).import_(json.dumps({"v": 3}))
        if type(root.v) is not float:
            return {"why": "json.loads keyword arguments not forwarded by JsonImporter"}
        fh = io.StringIO(json.dumps({"v": 3}))
        if type(JsonImporter(parse_int=float).read(fh).v) is not float:
            return {"why": "json.load keyword arguments not forwarded by JsonImporter.read"}
    return True
