"""Shared harness helpers: symbolic forests, the explicit model kept beside the nodes.

The model is (parent: list[int|None], children: list[list[int]]) computed from the
decisions only; it never reads the navigation attributes it is used to judge.
"""
from vlib.nondet import nondet_bool, nondet_int


def pick_parent_vector(n, forest=False):
    """p[0] = -1; p[i] in {0..i-1} (or -1 too when forest): every ordered forest shape."""
    pv = [-1]
    for i in range(1, n):
        pv.append(nondet_int(-1 if forest else 0, i - 1, "p%d" % i))
    return pv


def pick_size(lo, hi):
    return nondet_int(lo, hi, "n")


def model_from_pv(pv):
    n = len(pv)
    parent = [None if p < 0 else p for p in pv]
    children = [[] for _ in range(n)]
    for i, p in enumerate(pv):
        if p >= 0:
            children[p].append(i)
    return parent, children


def build(pv, factory):
    """factory(i) -> a fresh parentless node; nodes attached in index order via parent=."""
    nodes = [factory(i) for i in range(len(pv))]
    for i, p in enumerate(pv):
        if p >= 0:
            nodes[i].parent = nodes[p]
    return nodes


def index_of(nodes, obj):
    """identity lookup; -1 if obj is not one of nodes."""
    for i, n in enumerate(nodes):
        if n is obj:
            return i
    return -1


def idx_seq(nodes, seq):
    return [index_of(nodes, x) for x in seq]


# ---- reference definitions over the model -------------------------------------------

def m_preorder(children, s):
    out = [s]
    for c in children[s]:
        out.extend(m_preorder(children, c))
    return out


def m_postorder(children, s):
    out = []
    for c in children[s]:
        out.extend(m_postorder(children, c))
    out.append(s)
    return out


def m_levels(children, s):
    levels = []
    cur = [s]
    while cur:
        levels.append(cur)
        nxt = []
        for x in cur:
            nxt.extend(children[x])
        cur = nxt
    return levels


def m_depth(parent, i):
    d = 0
    while parent[i] is not None:
        i = parent[i]
        d += 1
    return d


def m_path(parent, i):
    out = [i]
    while parent[i] is not None:
        i = parent[i]
        out.append(i)
    out.reverse()
    return out


def m_height(children, i):
    return 0 if not children[i] else 1 + max(m_height(children, c) for c in children[i])


def real_map(nodes):
    """(parent index, children indices) per node, read from the real objects."""
    par = []
    chi = []
    for n in nodes:
        p = n.parent
        par.append(None if p is None else index_of(nodes, p))
        chi.append(idx_seq(nodes, n.children))
    return par, chi
