"""C09: RenderTree rows, text output, node reprs."""
from anytree import (AbstractStyle, AnyNode, AsciiStyle, ContRoundStyle, ContStyle, DoubleStyle, Node, NodeMixin, RenderTree, SymlinkNode)

from vlib.driver import nontrivial
from vlib.nondet import concrete_region, nondet_bool, nondet_int, nondet_sym

from .common import build, idx_seq, index_of, model_from_pv, pick_parent_vector


class R(NodeMixin):
    """node whose repr and attribute `val` come from a table"""

    def __init__(self, i):
        self.i = i

    def __repr__(self):
        return self.rep


def styles():
    return [
        ("ascii", AsciiStyle(), ("|   ", "|-- ", "+-- ")),
        ("cont", ContStyle(), (u"│   ", u"├── ", u"└── ")),
        ("round", ContRoundStyle(), (u"│   ", u"├── ", u"╰── ")),
        ("double", DoubleStyle(), (u"║   ", u"╠══ ", u"╚══ ")),
        ("w1", AbstractStyle("|", "+", "`"), ("|", "+", "`")),
        ("w2", AbstractStyle("| ", "+-", "`-"), ("| ", "+-", "`-")),
        ("w3", AbstractStyle(u"│..", "+--", "`--"), (u"│..", "+--", "`--")),
        ("class", ContStyle, (u"│   ", u"├── ", u"└── ")),
    ]


KEY = [3, 1, 4, 0, 2, 6, 5]


def expected_rows(children, s, order, maxlevel, chars):
    """rows (pre, fill, node) per C09's words.  order(list of child indices) -> rendered order."""
    vertical, cont, end = chars
    empty = " " * len(end)
    rows = []

    def rec(x, continues, depth):
        if not continues:
            rows.append(("", "", x))
        else:
            segs = [vertical if c else empty for c in continues]
            rows.append(("".join(segs[:-1]) + (cont if continues[-1] else end), "".join(segs), x))
        if maxlevel is None or depth + 1 < maxlevel:
            kids = order(children[x])
            for k, c in enumerate(kids):
                rec(c, continues + [k + 1 < len(kids)], depth + 1)

    rec(s, [], 0)
    return rows


def decode(pres, width):
    """shape of the rendered subtree from the `pre` strings alone: parent position of each row"""
    depths = [len(p) // width for p in pres]
    par = []
    stack = []
    for k, d in enumerate(depths):
        while len(stack) > d:
            stack.pop()
        par.append(stack[-1] if stack else None)
        stack.append(k)
    return depths, par


def rows_body(cfg):
    """rows == oracle rows for every style; prefix strings decode back to the rendered shape."""
    n = nondet_int(1, cfg["N"], "n")
    pv = pick_parent_vector(n)
    parent, children = model_from_pv(pv)
    s = nondet_int(0, n - 1, "start")
    ci = nondet_int(0, 3, "childiter")
    maxlevel = nondet_sym(int, "maxlevel") if nondet_bool("maxlevel_given") else None
    nodes = build(pv, R)
    dropm = {}

    def dropped(i):
        if i not in dropm:
            dropm[i] = nondet_bool("drop%d" % i)
        return dropm[i]

    if ci == 0:
        real_ci, order = list, list
    elif ci == 1:
        real_ci, order = reversed, (lambda xs: list(reversed(xs)))
    elif ci == 2:
        real_ci = lambda ch: sorted(ch, key=lambda nd: KEY[nd.i])
        order = lambda xs: sorted(xs, key=lambda i: KEY[i])
    else:
        real_ci = lambda ch: [c for c in ch if not dropped(c.i)]
        order = lambda xs: [i for i in xs if not dropped(i)]
    first = None
    for name, style, chars in styles() if cfg.get("allstyles", True) else styles()[:1]:
        rt = RenderTree(nodes[s], style=style, childiter=real_ci, maxlevel=maxlevel)
        got = [(r.pre, r.fill, index_of(nodes, r.node)) for r in rt]
        exp = expected_rows(children, s, order, maxlevel, chars)
        if len(exp) >= 3:
            nontrivial()
        if got != exp:
            return {"why": "rows differ", "style": name, "pv": pv, "start": s, "childiter": ci, "got": got, "exp": exp}
        # faithfulness: the shape is recoverable from the text alone
        width = len(chars[2])
        depths, par = decode([g[0] for g in got], width)
        pos = {g[2]: k for k, g in enumerate(got)}
        for k, g in enumerate(got):
            x = g[2]
            ep = None if x == s else pos.get(parent[x])
            if par[k] != ep:
                return {"why": "prefixes do not decode to the rendered shape", "style": name, "pv": pv, "start": s, "got": got}
        if first is None:
            first = [g[2] for g in got]
        # a second iteration of the same RenderTree object gives the same rows
        if [(r.pre, r.fill, index_of(nodes, r.node)) for r in rt] != got:
            return {"why": "second iteration differs", "style": name}
    return True


VALUES = ["", "a", "a\nb", "\n", "a\n", [], ["x", "y"], (), "MISSING", 7, ("p", "", "q"), "x\n\ny"]


def _lines_of(value):
    if value == "MISSING":
        value = ""
    if isinstance(value, (list, tuple)):
        return list(value) or [""]
    return str(value).splitlines() or [""]


def text_body(cfg):
    """str(RenderTree) and by_attr(): pre + first line, fill + further lines; an empty value still gives one line."""
    n = nondet_int(1, cfg["N"], "n")
    pv = pick_parent_vector(n)
    parent, children = model_from_pv(pv)
    s = nondet_int(0, n - 1, "start")
    shift = nondet_int(0, len(VALUES) - 1, "shift")
    stride = nondet_int(1, 2, "stride")
    with concrete_region():
        nodes = build(pv, R)
        vals = []
        for i, nd in enumerate(nodes):
            v = VALUES[(shift + stride * i) % len(VALUES)]
            vals.append(v)
            if not (isinstance(v, str) and v == "MISSING"):
                nd.val = v
            nd.rep = v if isinstance(v, str) and v != "MISSING" else "R%d" % i
        chars = ("|   ", "|-- ", "+-- ")
        rt = RenderTree(nodes[s], style=AsciiStyle())
        exp_rows = expected_rows(children, s, list, None, chars)
        if len(exp_rows) >= 2:
            nontrivial()
        exp = []
        for pre, fill, x in exp_rows:
            ls = _lines_of(vals[x])
            exp.append(pre + str(ls[0]))
            exp.extend(fill + str(l) for l in ls[1:])
        got = rt.by_attr("val")
        if got != "\n".join(exp):
            return {"why": "by_attr(name) text differs", "pv": pv, "start": s, "vals": vals, "got": got, "exp": "\n".join(exp)}
        got = rt.by_attr(lambda nd: getattr(nd, "val", ""))
        if got != "\n".join(exp):
            return {"why": "by_attr(callable) text differs", "pv": pv, "start": s, "vals": vals, "got": got, "exp": "\n".join(exp)}
        exp = []
        for pre, fill, x in exp_rows:
            ls = nodes[x].rep.splitlines() or [""]
            exp.append(pre + ls[0])
            exp.extend(fill + l for l in ls[1:])
        got = str(rt)
        if got != "\n".join(exp):
            return {"why": "str(RenderTree) differs", "pv": pv, "start": s, "got": got, "exp": "\n".join(exp)}
        # default attribute name is 'name'
        for i, nd in enumerate(nodes):
            nd.name = "n%d" % i
        if rt.by_attr() != "\n".join(pre + "n%d" % x for pre, fill, x in exp_rows):
            return {"why": "by_attr() default attribute", "pv": pv}
        # the SAME RenderTree object after the tree changed draws the current tree
        if n >= 2:
            moved = (s + 1) % n
            if moved != s and parent[moved] is not None:
                nodes[moved].parent = None
                ch2 = [[c for c in cs if c != moved] for cs in children]
                rows2 = expected_rows(ch2, s, list, None, chars)
                exp2 = "\n".join(pre + "n%d" % x for pre, fill, x in rows2)
                if rt.by_attr() != exp2:
                    return {"why": "by_attr() on the same RenderTree object does not draw the current tree", "pv": pv, "start": s, "moved": moved}
                exp3 = []
                for pre, fill, x in rows2:
                    ls = nodes[x].rep.splitlines() or [""]
                    exp3.append(pre + ls[0])
                    exp3.extend(fill + l for l in ls[1:])
                if str(rt) != "\n".join(exp3):
                    return {"why": "str() on the same RenderTree object does not draw the current tree", "pv": pv, "start": s, "moved": moved}
                if [index_of(nodes, r.node) for r in rt] != [x for _, _, x in rows2]:
                    return {"why": "iteration of the same RenderTree object does not follow the current tree", "pv": pv}
    return True


class SepNode(Node):
    separator = "|"


class SepAny(AnyNode):
    separator = "::"


ATTRKEYS = ["b", "a", "_hidden", "name2", "zz", "B", "names", "target2"]
ATTRVALS = [7, "x", None, [1, "y"], True, "it's", -1]


def repr_body(cfg):
    """Node/AnyNode/SymlinkNode reprs: separator-joined path of names, public attributes sorted by name."""
    n = nondet_int(1, cfg["N"], "n")
    pv = pick_parent_vector(n)
    parent, children = model_from_pv(pv)
    kind = nondet_int(0, 3, "class")
    nattr = nondet_int(0, 2, "nattr")
    k0 = nondet_int(0, len(ATTRKEYS) - 1, "key0")
    v0 = nondet_int(0, len(ATTRVALS) - 1, "val0")
    with concrete_region():
        keys = [ATTRKEYS[(k0 + j) % len(ATTRKEYS)] for j in range(nattr)]
        attrs = [dict((k, ATTRVALS[(v0 + i + j) % len(ATTRVALS)]) for j, k in enumerate(keys)) for i in range(n)]
        names = ["n%d" % i if i % 2 else i for i in range(n)]  # non-string names are str()-ed
        cls = (Node, SepNode, AnyNode, SymlinkNode)[kind]
        nodes = []
        for i in range(n):
            par = nodes[pv[i]] if pv[i] >= 0 else None
            if kind <= 1:
                nodes.append(cls(names[i], parent=par, **attrs[i]))
            elif kind == 2:
                nodes.append(cls(parent=par, **attrs[i]))
            else:
                nodes.append(SymlinkNode(Node(names[i], **attrs[i]), parent=par))
        nontrivial()
        for i in range(n):
            pub = sorted(k for k in attrs[i] if not k.startswith("_"))
            args = ", ".join("%s=%r" % (k, attrs[i][k]) for k in pub)
            if kind <= 1:
                sep = cls.separator
                path = []
                x = i
                while x is not None:
                    path.append(x)
                    x = parent[x]
                path.reverse()
                p = "".join(sep + str(names[x]) for x in path)
                exp = "%s(%r%s)" % (cls.__name__, p, (", " + args) if args else "")
            elif kind == 2:
                exp = "AnyNode(%s)" % args
            else:
                exp = "SymlinkNode(Node(%r%s))" % ("/" + str(names[i]), (", " + args) if args else "")
            got = repr(nodes[i])
            if got != exp:
                return {"why": "repr differs", "class": cls.__name__, "pv": pv, "node": i, "got": got, "exp": exp}
    return True
