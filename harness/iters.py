"""C06: filter_/stop/maxlevel restrict all five iterators compositionally (also C05 when unrestricted)."""
import anytree
from anytree import LevelOrderGroupIter, LevelOrderIter, NodeMixin, PostOrderIter, PreOrderIter, ZigZagGroupIter

from vlib.driver import nontrivial
from vlib.nondet import concrete_region, nondet_bool, nondet_int, nondet_sym

from .common import build, idx_seq, index_of, m_levels, m_postorder, m_preorder, model_from_pv, pick_parent_vector, real_map


class N(NodeMixin):
    def __init__(self, i):
        self.i = i


class NE(NodeMixin):
    """value/container semantics: all instances equal, empty, falsy"""

    def __init__(self, i):
        self.i = i

    def __eq__(self, other):
        return True

    def __ne__(self, other):
        return False

    def __hash__(self):
        return 1

    def __len__(self):
        return 0


class NL(NodeMixin, list):
    """a node that is also a list (payload container by inheritance)"""

    def __init__(self, i):
        list.__init__(self, ["payload%d" % i] * (i % 2))
        self.i = i

    __hash__ = object.__hash__

    def __eq__(self, other):
        return self is other


ITERS = {
    "pre": PreOrderIter,
    "post": PostOrderIter,
    "level": LevelOrderIter,
    "group": LevelOrderGroupIter,
    "zigzag": ZigZagGroupIter,
}


def _admitted(children, s, stopf, maxlevel):
    """admitted nodes per relative depth (lists in level order); reference per C06's words."""
    adm = set()

    def rec(x, d):
        if maxlevel is not None and not d < maxlevel:
            return
        if stopf(x):
            return
        adm.add(x)
        for c in children[x]:
            rec(c, d + 1)

    rec(s, 0)
    return adm


def restricted(body):
    def run(cfg):
        """C06: one iterator (cfg['iter']); stop/filter lazy flags; maxlevel None or ANY int (stays symbolic)."""
        which = cfg["iter"]
        n = cfg["N"] if cfg.get("exactN") else nondet_int(1, cfg["N"], "n")
        pv = pick_parent_vector(n)
        parent, children = model_from_pv(pv)
        nodes = build(pv, NE if cfg.get("cls") == "eq" else N)
        s = nondet_int(0, n - 1, "start") if cfg.get("starts", True) else 0
        if cfg.get("concrete_maxlevel"):
            ml = nondet_int(-2, n + 1, "maxlevel")  # -2 stands for None; -1..n+1 concrete (fast mode, no tracing of the real code)
            maxlevel = None if ml == -2 else ml
        else:
            use_ml = nondet_bool("maxlevel_given")
            maxlevel = nondet_sym(int, "maxlevel") if use_ml else None
        stopm = {}
        filtm = {}

        def stopi(i):
            if i not in stopm:
                stopm[i] = nondet_bool("stop%d" % i)
            return stopm[i]

        def filti(i):
            if i not in filtm:
                filtm[i] = nondet_bool("filt%d" % i)
            return filtm[i]

        stop = lambda node: stopi(node.i)
        filt = lambda node: filti(node.i)
        if cfg.get("no_filter"):
            filt = None
            filti = lambda i: True
        before = real_map(nodes)
        if cfg.get("concrete_maxlevel"):
            with concrete_region():
                got = list(ITERS[which](nodes[s], filter_=filt, stop=stop, maxlevel=maxlevel))
        else:
            got = list(ITERS[which](nodes[s], filter_=filt, stop=stop, maxlevel=maxlevel))
        # ---- oracle
        adm = _admitted(children, s, stopi, maxlevel)
        if which == "pre":
            exp = [x for x in m_preorder(children, s) if x in adm and filti(x)]
            gotx = idx_seq(nodes, got)
        elif which == "post":
            exp = [x for x in m_postorder(children, s) if x in adm and filti(x)]
            gotx = idx_seq(nodes, got)
        elif which == "level":
            exp = [x for lv in m_levels(children, s) for x in lv if x in adm and filti(x)]
            gotx = idx_seq(nodes, got)
        else:
            exp = []
            for d, lv in enumerate(m_levels(children, s)):
                a = [x for x in lv if x in adm]
                if not a:
                    break
                g = [x for x in a if filti(x)]
                if which == "zigzag" and d % 2 == 1:
                    g.reverse()
                exp.append(g)
            if not all(type(g) is tuple for g in got):
                return {"why": "group not a tuple"}
            gotx = [idx_seq(nodes, g) for g in got]
        if len(adm) >= 2:
            nontrivial()
        if gotx != exp:
            return {"why": "sequence differs", "pv": pv, "start": s, "got": gotx, "exp": exp,
                    "stop": dict(stopm), "filt": dict(filtm)}
        if real_map(nodes) != before:
            return {"why": "tree modified by iteration"}
        return True

    return run


@restricted
def c06_body():
    pass


def c05_body(cfg):
    """C05: unrestricted iteration - order, exactly-once, same set for all five, no mutation,
    partial consumption yields a prefix.  Pure structure: every argument is a pick."""
    n = nondet_int(1, cfg["N"], "n")
    pv = pick_parent_vector(n)
    parent, children = model_from_pv(pv)
    s = nondet_int(0, n - 1, "start")
    k = nondet_int(0, 2, "consume")  # 0: full only; 1,2: also next() that many times on a fresh iterator
    with concrete_region():
        nodes = build(pv, {"eq": NE, "list": NL}.get(cfg.get("cls"), N))
        before = real_map(nodes)
        pre = m_preorder(children, s)
        levels = m_levels(children, s)
        exp = {
            "pre": pre,
            "post": m_postorder(children, s),
            "level": [x for lv in levels for x in lv],
            "group": levels,
            "zigzag": [list(reversed(lv)) if d % 2 else lv for d, lv in enumerate(levels)],
        }
        if len(pre) >= 3:
            nontrivial()
        for which in ("pre", "post", "level", "group", "zigzag"):
            got = list(ITERS[which](nodes[s]))
            if which in ("group", "zigzag"):
                if not all(type(g) is tuple for g in got):
                    return {"why": "group not a tuple", "iter": which}
                gotx = [idx_seq(nodes, g) for g in got]
                flat = [x for g in gotx for x in g]
            else:
                gotx = idx_seq(nodes, got)
                flat = gotx
            if gotx != exp[which]:
                return {"why": "order differs", "iter": which, "pv": pv, "start": s, "got": gotx, "exp": exp[which]}
            if sorted(flat) != sorted(pre) or len(set(flat)) != len(flat):
                return {"why": "not exactly the subtree's nodes once", "iter": which, "pv": pv, "start": s, "got": gotx}
            if k:
                it = ITERS[which](nodes[s])
                part = []
                for _ in range(k):
                    try:
                        part.append(next(it))
                    except StopIteration:
                        break
                px = [idx_seq(nodes, g) for g in part] if which in ("group", "zigzag") else idx_seq(nodes, part)
                if px != exp[which][: len(px)] or len(px) != min(k, len(exp[which])):
                    return {"why": "partial consumption is not a prefix", "iter": which, "pv": pv, "start": s, "got": px}
            # one iterator object consumed in several steps (for/break, islice, zip): every node still exactly once
            it = ITERS[which](nodes[s])
            seen = []
            for x in it:
                seen.append(x)
                break
            for x in it:
                seen.append(x)
            sx = [idx_seq(nodes, g) for g in seen] if which in ("group", "zigzag") else idx_seq(nodes, seen)
            if sx != exp[which]:
                return {"why": "for/break followed by a second loop over the same iterator", "iter": which, "pv": pv, "start": s, "got": sx, "exp": exp[which]}
            it = ITERS[which](nodes[s])
            pairs = [y for pair in zip(it, it) for y in pair]
            px = [idx_seq(nodes, g) for g in pairs] if which in ("group", "zigzag") else idx_seq(nodes, pairs)
            if px != exp[which][: len(px)] or len(px) < len(exp[which]) - 1:
                return {"why": "zip(it, it) over one iterator object", "iter": which, "pv": pv, "start": s, "got": px, "exp": exp[which]}
            if real_map(nodes) != before:
                return {"why": "tree modified by iteration", "iter": which, "pv": pv}
    return True
