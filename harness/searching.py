"""C14: findall/find/findall_by_attr/find_by_attr and their cachedsearch twins."""
from anytree import NodeMixin, cachedsearch, search
from anytree.search import CountError

from vlib.driver import nontrivial
from vlib.nondet import nondet_bool, nondet_int, nondet_sym

from .common import build, idx_seq, index_of, m_preorder, model_from_pv, pick_parent_vector

ATTR = [None]  # name of the lazily present attribute on this path
ASK = [None]


class N(NodeMixin):
    def __init__(self, i):
        self.i = i

    def __repr__(self):
        return "N%d<50%%s %%d%%>" % self.i  # a repr may contain any text, including % directives

    def __getattr__(self, name):
        # only reached when normal lookup fails: the lazily decided attribute
        if name == ATTR[0] and ASK[0] is not None:
            present, val = ASK[0](self.i)
            if present:
                return val
        raise AttributeError(name)


class NV(N):
    """value/container semantics: all instances equal, empty, falsy"""

    def __eq__(self, other):
        return True

    def __ne__(self, other):
        return False

    def __hash__(self):
        return 3

    def __len__(self):
        return 0


def _restricted_preorder(children, s, stopf, filtf, maxlevel):
    out = []

    def rec(x, d):
        if maxlevel is not None and not d < maxlevel:
            return
        if stopf(x):
            return
        if filtf(x):
            out.append(x)
        for c in children[x]:
            rec(c, d + 1)

    rec(s, 0)
    return out


COUNTS8 = [(None, None), (-1, None), (0, None), (1, None), (None, -1), (None, 0), (None, 1), (0, 0)]
COUNTS4 = [(None, None), (1, None), (None, -1), (0, 0)]


def _pick_counts(k, table):
    """(mincount, maxcount) relative to the expected match count k"""
    lo, hi = table[nondet_int(0, len(table) - 1, "counts")]
    return (None if lo is None else k + lo), (None if hi is None else k + hi)


def _call(fn, *a, **kw):
    try:
        return ("ok", fn(*a, **kw))
    except CountError as exc:
        return ("CountError", str(exc))


def _tree(cfg):
    n = nondet_int(1, cfg["N"], "n")
    pv = pick_parent_vector(n)
    parent, children = model_from_pv(pv)
    nodes = build(pv, NV if cfg.get("valsem") else N)
    s = nondet_int(0, n - 1, "start") if cfg.get("starts", True) else 0
    maxlevel = nondet_sym(int, "maxlevel") if nondet_bool("maxlevel_given") else None
    return n, pv, children, nodes, s, maxlevel


def findall_body(cfg):
    """findall/find (+cached twins): result == filtered pre-order as a tuple; CountError iff count < mincount or > maxcount."""
    ATTR[0] = None
    ASK[0] = None
    n, pv, children, nodes, s, maxlevel = _tree(cfg)
    stopm, filtm = {}, {}

    def stopi(i):
        if i not in stopm:
            stopm[i] = nondet_bool("stop%d" % i)
        return stopm[i]

    def filti(i):
        if i not in filtm:
            filtm[i] = nondet_bool("filt%d" % i)
        return filtm[i]

    use_stop = use_filt = nondet_bool("predicates_given")
    stop = (lambda nd: stopi(nd.i)) if use_stop else None
    filt = (lambda nd: filti(nd.i)) if use_filt else None
    exp = _restricted_preorder(children, s, stopi if use_stop else (lambda i: False), filti if use_filt else (lambda i: True), maxlevel)
    k = len(exp)
    if k >= 2:
        nontrivial()
    which = cfg["fn"]
    mod = cachedsearch if cfg.get("cached") else search
    if which == "findall":
        if cfg.get("counts", True):
            mincount, maxcount = _pick_counts(k, COUNTS8)
        else:
            mincount = maxcount = None
        res = _call(mod.findall, nodes[s], filter_=filt, stop=stop, maxlevel=maxlevel, mincount=mincount, maxcount=maxcount)
        must_fail = (mincount is not None and k < mincount) or (maxcount is not None and k > maxcount)
        if must_fail != (res[0] == "CountError"):
            return {"why": "CountError iff count outside [mincount, maxcount]", "pv": pv, "start": s, "k": k, "mincount": mincount, "maxcount": maxcount, "got": res[0]}
        if res[0] == "CountError":
            bound = mincount if (mincount is not None and k < mincount) else maxcount
            if str(bound) not in res[1] or str(k) not in res[1]:
                return {"why": "CountError message does not name both numbers", "msg": res[1], "k": k, "bound": bound}
        else:
            if type(res[1]) is not tuple or idx_seq(nodes, res[1]) != exp:
                return {"why": "findall result differs", "pv": pv, "start": s, "got": idx_seq(nodes, res[1]), "exp": exp, "stop": stopm, "filt": filtm}
    else:
        res = _call(mod.find, nodes[s], filter_=filt, stop=stop, maxlevel=maxlevel)
        if k >= 2:
            if res[0] != "CountError":
                return {"why": "find with >=2 matches must raise CountError", "pv": pv, "start": s, "exp": exp}
        elif res[0] != "ok":
            return {"why": "find raised with <2 matches", "pv": pv, "start": s, "exp": exp, "msg": res[1]}
        elif (None if res[1] is None else index_of(nodes, res[1])) != (exp[0] if exp else None):
            return {"why": "find result differs", "pv": pv, "start": s, "exp": exp}
    if cfg.get("cached"):
        # the cached function must agree with the plain one on the very same arguments
        if which == "findall":
            ref = _call(search.findall, nodes[s], filter_=filt, stop=stop, maxlevel=maxlevel, mincount=mincount, maxcount=maxcount)
        else:
            ref = _call(search.find, nodes[s], filter_=filt, stop=stop, maxlevel=maxlevel)
        if not _same(nodes, res, ref):
            return {"why": "cachedsearch differs from search", "fn": which}
        # the same call (same argument objects) after the tree changed must reflect the current tree.
        # Run un-traced with concrete arguments: CrossHair deliberately bypasses functools.lru_cache under tracing
        # (crosshair/libimpl/functoolslib.py), which would hide any caching layer from this obligation.
        from vlib.nondet import concrete_region

        if n >= 2:
            victim = nodes[(s + 1) % n] if (s + 1) % n != s else None
            if victim is not None and victim.parent is not None:
                with concrete_region():
                    fn_c = mod.findall if which == "findall" else mod.find
                    fn_s = search.findall if which == "findall" else search.find
                    _call(fn_c, nodes[s], filter_=filt, stop=stop)
                    victim.parent = None
                    again = _call(fn_c, nodes[s], filter_=filt, stop=stop)
                    ref2 = _call(fn_s, nodes[s], filter_=filt, stop=stop)
                    if not _same(nodes, again, ref2):
                        return {"why": "cachedsearch returns a stale result after the tree changed", "fn": which}
    return True


def _same(nodes, a, b):
    if a[0] != b[0]:
        return False
    if a[0] == "CountError":
        return a[1] == b[1]
    if isinstance(a[1], tuple) != isinstance(b[1], tuple):
        return False
    if isinstance(a[1], tuple):
        return len(a[1]) == len(b[1]) and all(x is y for x, y in zip(a[1], b[1]))
    return a[1] is b[1]


def by_attr_body(cfg):
    """findall_by_attr/find_by_attr: nodes whose attribute `name` exists and equals `value`; nodes lacking it are
    skipped (no AttributeError).  Presence per node is a lazy flag, values are unbounded symbolic ints or None."""
    n, pv, children, nodes, s, maxlevel = _tree(cfg)
    name = ("name", "a.b")[nondet_int(0, 1, "attrname")]  # a dotted name is an ordinary attribute name for getattr
    ATTR[0] = name
    vkind = nondet_int(0, 1, "valuekind")
    value = nondet_sym(int, "value") if vkind == 0 else None
    attrs = {}

    def ask(i):
        if i not in attrs:
            if nondet_bool("has%d" % i):
                attrs[i] = (True, nondet_sym(int, "val%d" % i) if (value is not None or nondet_bool("int%d" % i)) else None)
            else:
                attrs[i] = (False, None)
        return attrs[i]

    ASK[0] = ask
    try:
        def matches(i):
            present, val = ask(i)
            if not present:
                return False
            if val is None or value is None:
                return val is None and value is None
            return val == value

        exp = _restricted_preorder(children, s, lambda i: False, matches, maxlevel)
        k = len(exp)
        if k >= 1 and len(attrs) >= 2:
            nontrivial()
        which = cfg["fn"]
        mod = cachedsearch if cfg.get("cached") else search
        kw = {} if name == "name" else {"name": name}
        try:
            if which == "findall_by_attr":
                if cfg.get("counts", True):
                    mincount, maxcount = _pick_counts(k, COUNTS4)
                else:
                    mincount = maxcount = None
                res = _call(mod.findall_by_attr, nodes[s], value, maxlevel=maxlevel, mincount=mincount, maxcount=maxcount, **kw)
                must_fail = (mincount is not None and k < mincount) or (maxcount is not None and k > maxcount)
                if must_fail != (res[0] == "CountError"):
                    return {"why": "CountError iff count outside [mincount, maxcount]", "pv": pv, "k": k, "mincount": mincount, "maxcount": maxcount, "got": res[0]}
                if res[0] == "ok" and (type(res[1]) is not tuple or idx_seq(nodes, res[1]) != exp):
                    return {"why": "findall_by_attr result differs", "pv": pv, "start": s, "got": idx_seq(nodes, res[1]), "exp": exp, "attrs": repr(attrs), "name": name}
                if cfg.get("cached"):
                    ref = _call(search.findall_by_attr, nodes[s], value, maxlevel=maxlevel, mincount=mincount, maxcount=maxcount, **kw)
                    if not _same(nodes, res, ref):
                        return {"why": "cachedsearch differs from search", "fn": which}
            else:
                res = _call(mod.find_by_attr, nodes[s], value, maxlevel=maxlevel, **kw)
                if k >= 2:
                    if res[0] != "CountError":
                        return {"why": "find_by_attr with >=2 matches must raise CountError", "pv": pv, "exp": exp}
                elif res[0] != "ok":
                    return {"why": "find_by_attr raised with <2 matches", "pv": pv, "exp": exp, "msg": res[1]}
                elif (None if res[1] is None else index_of(nodes, res[1])) != (exp[0] if exp else None):
                    return {"why": "find_by_attr result differs", "pv": pv, "start": s, "exp": exp, "attrs": repr(attrs), "name": name}
                if cfg.get("cached"):
                    ref = _call(search.find_by_attr, nodes[s], value, maxlevel=maxlevel, **kw)
                    if not _same(nodes, res, ref):
                        return {"why": "cachedsearch differs from search", "fn": which, "res": repr(res), "ref": repr(ref)}
        except AttributeError as exc:
            return {"why": "AttributeError escaped", "exc": repr(exc)}
    finally:
        ASK[0] = None
    return True
