"""C17: tree operations use node identity only - lock-step of a plain class and adversarial classes whose
comparison / hash / truth-value / container special methods record any invocation."""
from anytree import LightNodeMixin, NodeMixin

from oracle import forest as F
from vlib.driver import nontrivial
from vlib.nondet import concrete_region, nondet_bool, nondet_int

from . import queries
from .common import index_of, model_from_pv, real_map
from .mutate import NotANode, classify, pick_forest, pick_op

SPY = []
MODE = ["equal"]


class SpecialMethodUsed(RuntimeError):
    pass


def _spy(name, equal, never):
    def method(self, *args):
        SPY.append(name)
        m = MODE[0]
        if m == "raise":
            raise SpecialMethodUsed(name)
        return equal(self, *args) if m == "equal" else never(self, *args)

    method.__name__ = name
    return method


def _idx_err(self, *a):
    raise IndexError("spy")


_METHODS = {
    "__eq__": (lambda s, o: True, lambda s, o: False),
    "__ne__": (lambda s, o: False, lambda s, o: True),
    "__lt__": (lambda s, o: True, lambda s, o: False),
    "__le__": (lambda s, o: True, lambda s, o: False),
    "__gt__": (lambda s, o: True, lambda s, o: False),
    "__ge__": (lambda s, o: True, lambda s, o: False),
    "__hash__": (lambda s: 1, lambda s: id(s) >> 4),
    "__bool__": (lambda s: False, lambda s: True),
    "__len__": (lambda s: 0, lambda s: 3),
    "__iter__": (lambda s: iter(()), lambda s: iter((1, 2, 3))),
    "__contains__": (lambda s, x: True, lambda s, x: False),
    "__getitem__": (_idx_err, lambda s, k: k),
}


class _SpyMethods(object):
    __slots__ = ()


for _n, (_e, _v) in _METHODS.items():
    setattr(_SpyMethods, _n, _spy(_n, _e, _v))


class Plain(NodeMixin):
    def __init__(self, i):
        self.i = i
        self.name = "n%d" % (i % 3)


class Spy(_SpyMethods, NodeMixin):
    def __init__(self, i):
        self.i = i
        self.name = "n%d" % (i % 3)


class SpyLight(_SpyMethods, LightNodeMixin):
    __slots__ = ("i", "name")

    def __init__(self, i):
        self.i = i
        self.name = "n%d" % (i % 3)


class PlainLight(LightNodeMixin):
    __slots__ = ("i", "name")

    def __init__(self, i):
        self.i = i
        self.name = "n%d" % (i % 3)


class Unhashable(NodeMixin):
    __hash__ = None

    def __init__(self, i):
        self.i = i
        self.name = "n%d" % (i % 3)

    def __eq__(self, other):
        SPY.append("__eq__")
        return True


def _run(cls, pv, op):
    nodes = [cls(i) for i in range(len(pv))]
    for i, p in enumerate(pv):
        if p >= 0:
            nodes[i].parent = nodes[p]
    non = NotANode()
    a = nodes[op[1]]
    exc = None
    try:
        if op[0] == "parent":
            b = op[2]
            a.parent = None if b is None else (non if b == F.NON else nodes[b])
        elif op[0] == "del":
            del a.children
        else:
            a.children = [non if x == F.NON else (None if x == F.NONE else nodes[x]) for x in op[2]]
    except Exception as e:
        exc = e
    return nodes, exc


def c17_body(cfg):
    """forest + one structural call + the whole read-only battery, on a plain class and on an adversarial class:
    no special method may be invoked (spy list empty) and all index-mapped results must be equal."""
    light = cfg.get("family") == "light"
    n, pv = pick_forest(cfg)
    op = pick_op(dict(cfg, noniter=False, non_node=not light), n, "light" if light else "mixin")
    mode = nondet_int(0, 3 if not light else 2, "mode")
    with concrete_region():
        MODE[0] = ("equal", "never", "raise", "unhashable")[mode]
        plain_cls = PlainLight if light else Plain
        spy_cls = (SpyLight if light else Spy) if mode < 3 else Unhashable
        del SPY[:]
        nodes_p, exc_p = _run(plain_cls, pv, op)
        del SPY[:]
        nodes_s, exc_s = _run(spy_cls, pv, op)
        info = {"pv": pv, "op": op, "mode": MODE[0], "family": cfg.get("family", "mixin")}
        if SPY:
            return dict(info, why="special method invoked during the structural call", methods=sorted(set(SPY)))
        nontrivial()
        if classify(exc_p) != classify(exc_s):
            return dict(info, why="outcome of the structural call differs", plain=repr(exc_p), adversarial=repr(exc_s))
        mp, ms = real_map(nodes_p), real_map(nodes_s)
        if mp != ms:
            return dict(info, why="structure after the call differs", plain=list(mp), adversarial=list(ms))
        if F.invariant(mp[0], mp[1]) is not None:
            return True  # only reachable with a non-node argument already refused above
        names = ["n0", "n1", "n2"]
        qp = queries.all_queries(nodes_p, stopset=(2,), filtset=(1,), resolver="name")
        qp.update(queries.extended_queries(nodes_p, names))
        del SPY[:]
        try:
            qs = queries.all_queries(nodes_s, stopset=(2,), filtset=(1,), resolver="name")
            qs.update(queries.extended_queries(nodes_s, names))
        except Exception as exc:
            return dict(info, why="a read-only query raised on the adversarial class", exc=repr(exc), methods=sorted(set(SPY)))
        if SPY:
            return dict(info, why="special method invoked by a read-only query", methods=sorted(set(SPY)))
        if not light:
            # symlinks pointing at the nodes: attribute reads through a link must not consult the target's special methods
            from anytree import SymlinkNode

            def through_links(nodes):
                out = []
                for nd in nodes:
                    link = SymlinkNode(nd)
                    try:
                        out.append((link.name, link.i, getattr(link, "nope", "<missing>")))
                    except Exception as exc:
                        out.append("raise:" + type(exc).__name__)
                return out

            lp = through_links(nodes_p)
            del SPY[:]
            ls = through_links(nodes_s)
            if SPY:
                return dict(info, why="special method of the TARGET invoked by an attribute read through a SymlinkNode", methods=sorted(set(SPY)))
            if lp != ls:
                return dict(info, why="attribute reads through a SymlinkNode differ", plain=lp, adversarial=ls)
        if qp != qs:
            d = [k for k in qp if qp[k] != qs.get(k)]
            return dict(info, why="read-only result differs", query=d[:4], plain=[qp[k] for k in d[:2]], adversarial=[qs[k] for k in d[:2]])
    return True
