"""Every read-only query of the library on a set of nodes, index-mapped by identity.

Used for lock-step comparisons (C17, C18): the same battery on two node families must give
the same index-mapped results.  Nodes need an attribute `i` (their index) used as path attribute.
"""
import warnings

from anytree import (LevelOrderGroupIter, LevelOrderIter, PostOrderIter, PreOrderIter, RenderTree, Resolver, Walker, ZigZagGroupIter, util)
from anytree.resolver import ResolverError
from anytree.walker import WalkError

from .common import index_of, idx_seq


def _x(nodes, v):
    if v is None:
        return None
    return index_of(nodes, v)


def _safe(fn):
    try:
        return fn()
    except (ResolverError, WalkError) as exc:
        return "raise:" + type(exc).__name__
    except Exception as exc:  # any other exception is part of the observable result too
        return "raise!:" + type(exc).__name__


def nav(nodes, nd):
    out = {}
    out["parent"] = _x(nodes, nd.parent)
    out["children"] = idx_seq(nodes, nd.children)
    out["path"] = idx_seq(nodes, nd.path)
    out["iter_path_reverse"] = idx_seq(nodes, nd.iter_path_reverse())
    out["ancestors"] = idx_seq(nodes, nd.ancestors)
    out["descendants"] = idx_seq(nodes, nd.descendants)
    out["root"] = _x(nodes, nd.root)
    out["siblings"] = idx_seq(nodes, nd.siblings)
    out["leaves"] = idx_seq(nodes, nd.leaves)
    out["is_leaf"] = nd.is_leaf
    out["is_root"] = nd.is_root
    out["height"] = nd.height
    out["depth"] = nd.depth
    out["size"] = nd.size
    out["leftsibling"] = _x(nodes, util.leftsibling(nd))
    out["rightsibling"] = _x(nodes, util.rightsibling(nd))
    out["commonancestors1"] = idx_seq(nodes, util.commonancestors(nd))
    return out


def all_queries(nodes, stopset=(), filtset=(), maxlevel=None, resolver=True):
    q = {}
    n = len(nodes)
    stop = lambda nd: index_of(nodes, nd) in stopset
    filt = lambda nd: index_of(nodes, nd) not in filtset
    for i, nd in enumerate(nodes):
        for k, v in nav(nodes, nd).items():
            q["%s[%d]" % (k, i)] = v
        q["pre[%d]" % i] = idx_seq(nodes, PreOrderIter(nd))
        q["post[%d]" % i] = idx_seq(nodes, PostOrderIter(nd))
        q["level[%d]" % i] = idx_seq(nodes, LevelOrderIter(nd))
        q["group[%d]" % i] = [idx_seq(nodes, g) for g in LevelOrderGroupIter(nd)]
        q["zigzag[%d]" % i] = [idx_seq(nodes, g) for g in ZigZagGroupIter(nd)]
        q["pre_r[%d]" % i] = idx_seq(nodes, PreOrderIter(nd, filter_=filt, stop=stop, maxlevel=2))
        q["post_r[%d]" % i] = idx_seq(nodes, PostOrderIter(nd, filter_=filt, stop=stop, maxlevel=2))
        q["level_r[%d]" % i] = idx_seq(nodes, LevelOrderIter(nd, filter_=filt, stop=stop, maxlevel=2))
        q["zigzag_r[%d]" % i] = [idx_seq(nodes, g) for g in ZigZagGroupIter(nd, filter_=filt, stop=stop, maxlevel=3)]
        q["render[%d]" % i] = [(r.pre, r.fill, index_of(nodes, r.node)) for r in RenderTree(nd)]
        q["render2[%d]" % i] = [(r.pre, index_of(nodes, r.node)) for r in RenderTree(nd, maxlevel=2, childiter=reversed)]
        for j, other in enumerate(nodes):
            def walk():
                u, c, d = Walker().walk(nd, other)
                return [idx_seq(nodes, u), index_of(nodes, c), idx_seq(nodes, d)]
            q["walk[%d,%d]" % (i, j)] = _safe(walk)
            q["common[%d,%d]" % (i, j)] = idx_seq(nodes, util.commonancestors(nd, other))
        if resolver:
            attr = "i" if resolver is True else resolver
            r = Resolver(attr)
            rr = Resolver(attr, relax=True)
            sep = nd.separator
            first = str(getattr(nodes[(i + 1) % n], attr))
            for path in ("*", "**", "*" + sep + "*", "..", ".." + sep + "*", first, sep + str(getattr(nd.root, attr)) + sep + "*", "**" + sep + first, "**" + sep + ".."):
                q["glob[%d,%s]" % (i, path)] = _safe(lambda: idx_seq(nodes, r.glob(nd, path)))
                q["globr[%d,%s]" % (i, path)] = _safe(lambda: idx_seq(nodes, rr.glob(nd, path)))
                if "*" not in path:
                    q["get[%d,%s]" % (i, path)] = _safe(lambda: _x(nodes, r.get(nd, path)))
            for j, other in enumerate(nodes):
                ap = sep + sep.join(str(getattr(x, attr)) for x in other.path)
                q["getabs[%d,%d]" % (i, j)] = _safe(lambda: _x(nodes, rr.get(nd, ap)))
    return q


def extended_queries(nodes, names):
    """search functions, RenderTree text, exporters - on nodes that carry .name"""
    import warnings

    from anytree import find, find_by_attr, findall, findall_by_attr
    from anytree.exporter import DictExporter, DotExporter, MermaidExporter, UniqueDotExporter
    from anytree.search import CountError

    q = {}
    for i, nd in enumerate(nodes):
        q["findall[%d]" % i] = idx_seq(nodes, findall(nd, filter_=lambda x: index_of(nodes, x) % 2 == 0))
        q["findall_stop[%d]" % i] = idx_seq(nodes, findall(nd, stop=lambda x: index_of(nodes, x) == 2, maxlevel=3))
        try:
            q["find[%d]" % i] = _x(nodes, find(nd, filter_=lambda x: index_of(nodes, x) == 1))
        except CountError:
            q["find[%d]" % i] = "CountError"
        q["findall_by_attr[%d]" % i] = idx_seq(nodes, findall_by_attr(nd, names[0]))
        try:
            q["find_by_attr[%d]" % i] = _x(nodes, find_by_attr(nd, names[-1]))
        except CountError:
            q["find_by_attr[%d]" % i] = "CountError"
        try:
            findall(nd, mincount=len(nodes) + 1)
            q["count[%d]" % i] = "no error"
        except CountError:
            q["count[%d]" % i] = "CountError"
        q["by_attr[%d]" % i] = RenderTree(nd).by_attr("name")
        if hasattr(nd, "__dict__"):
            q["dict[%d]" % i] = _dict_shape(DictExporter(attriter=lambda av: [(k, v) for k, v in av if k == "name"]).export(nd))
        q["dot[%d]" % i] = list(DotExporter(nd))
        q["dot_r[%d]" % i] = list(DotExporter(nd, filter_=lambda x: index_of(nodes, x) != 1, stop=lambda x: index_of(nodes, x) == 3, maxlevel=2))
        q["udot[%d]" % i] = list(UniqueDotExporter(nd))
        q["mermaid[%d]" % i] = list(MermaidExporter(nd, maxlevel=3))
    return q


def _dict_shape(d):
    return (d.get("name"), [_dict_shape(c) for c in d.get("children", [])])
