"""C19: pickle / deepcopy give an independent, consistent, isomorphic tree."""
import copy
import pickle

from anytree import AnyNode, LightNodeMixin, Node, NodeMixin, SymlinkNode

from oracle import forest as F
from vlib.driver import nontrivial
from vlib.nondet import concrete_region, nondet_bool, nondet_int

from .common import index_of, model_from_pv, pick_parent_vector, real_map


class User(NodeMixin):
    def __init__(self, i):
        self.i = i
        self.payload = [i, "p"]
        # legitimate user attributes whose names resemble the library's bookkeeping
        self._parent = "store-%d" % i
        self._children = [i]
        self.parent_ = None


class Bucket(NodeMixin):
    """payload-style container semantics: empty buckets are falsy"""

    def __init__(self, i):
        self.i = i
        self.items = [] if i % 2 == 0 else [i]

    def __len__(self):
        return len(self.items)


class AllEq(NodeMixin):
    def __init__(self, i):
        self.i = i

    def __eq__(self, other):
        return isinstance(other, AllEq)

    def __hash__(self):
        return 3


class Slots(LightNodeMixin):
    __slots__ = ("i", "tag")

    def __init__(self, i):
        self.i = i
        self.tag = "t%d" % i


class Named(LightNodeMixin):
    __slots__ = ("i", "tag")

    def __init__(self, i):
        self.i = i
        self.tag = "t%d" % i


class Weighted(Named):
    """second level of a __slots__ hierarchy"""

    __slots__ = ("weight",)

    def __init__(self, i):
        Named.__init__(self, i)
        self.weight = 10 + i


class SlotUser(NodeMixin):
    """NodeMixin subclass that keeps part of its state in __slots__ (next to the inherited __dict__)"""

    __slots__ = ("tags", "partner")

    def __init__(self, i):
        self.i = i
        self.tags = ["t%d" % i]
        self.partner = None


KINDS = ["node", "anynode", "user", "bucket", "alleq", "slots", "symlink", "slots2", "slotuser"]


def make(kind, pv, link_targets):
    nodes = []
    for i, p in enumerate(pv):
        if kind == "node":
            nd = Node("n%d" % i, foo=i, lst=[i])
        elif kind == "anynode":
            nd = AnyNode(id=i, data={"k": i})
        elif kind == "user":
            nd = User(i)
        elif kind == "bucket":
            nd = Bucket(i)
        elif kind == "alleq":
            nd = AllEq(i)
        elif kind == "slots":
            nd = Slots(i)
        elif kind == "slots2":
            nd = Named(i) if i % 2 == 0 else Weighted(i)
        elif kind == "slotuser":
            nd = SlotUser(i)
            nd.partner = nodes[0] if nodes else None
        else:
            t = link_targets[i]
            nd = Node("n%d" % i, foo=i) if t is None else SymlinkNode(nodes[t])
        nodes.append(nd)
    for i, p in enumerate(pv):
        if p >= 0:
            nodes[i].parent = nodes[p]
    return nodes


def attrs_of(nd):
    if isinstance(nd, Slots):
        return ("slots", nd.i, nd.tag)
    if isinstance(nd, SlotUser):
        return ("slotuser", nd.i, list(nd.tags), None if nd.partner is None else nd.partner.i)
    if isinstance(nd, Named):
        return ("slots2", nd.i, nd.tag, getattr(nd, "weight", "<no weight>"))
    d = dict((k, v) for k, v in nd.__dict__.items() if k not in ("_NodeMixin__parent", "_NodeMixin__children", "target"))
    return sorted(d.items(), key=lambda kv: kv[0])


def collect(root):
    """pre-order list of the nodes of the tree below root, using children only"""
    out = [root]
    for c in root.children:
        out.extend(collect(c))
    return out


def root_via_parent(nd, limit=50):
    steps = 0
    while nd.parent is not None:
        nd = nd.parent
        steps += 1
        if steps > limit:
            return None
    return nd


def do_copy(nd, method):
    if method == 6:
        return copy.deepcopy(nd)
    return pickle.loads(pickle.dumps(nd, protocol=method))


def c19_body(cfg):
    """every tree shape x node class mix x entry node x pickle protocol / deepcopy; then every single parent=
    mutation of the copy (and of the original) leaves the other tree untouched."""
    n = nondet_int(1, cfg["N"], "n")
    pv = pick_parent_vector(n)
    parent, children = model_from_pv(pv)
    kind = KINDS[nondet_int(0, len(KINDS) - 1, "class")]
    entry = nondet_int(0, n - 1, "entry")
    method = nondet_int(2 if kind in ("slots", "slots2", "slotuser") else 0, 6, "protocol_or_deepcopy")
    link_targets = [None] * n
    other_tree_target = False
    if kind == "symlink":
        for i in range(1, n):
            t = nondet_int(-1, i - 1, "target%d" % i)
            link_targets[i] = None if t < 0 else t
        other_tree_target = nondet_bool("first_target_in_other_tree")
    with concrete_region():
        nodes = make(kind, pv, link_targets)
        outside = None
        if other_tree_target and n >= 2 and link_targets[1] is not None:
            outside = Node("outside", foo="o")
            Node("outside_child", parent=outside)
            nodes[1].target = outside
        if n >= 3:
            nontrivial()
        info = {"pv": pv, "class": kind, "entry": entry, "method": method, "targets": link_targets}
        before = real_map(nodes)
        cp = do_copy(nodes[entry], method)
        if real_map(nodes) != before:
            return dict(info, why="copying modified the original")
        croot = root_via_parent(cp)
        if croot is None:
            return dict(info, why="parent chain of the copy does not end")
        cnodes = collect(croot)
        order = []  # original indices in pre-order
        stack = [0]
        while stack:
            x = stack.pop()
            order.append(x)
            stack.extend(reversed(children[x]))
        if len(cnodes) != n:
            return dict(info, why="copy's tree has %d nodes, original %d" % (len(cnodes), n))
        cidx = [None] * n
        for pos, x in enumerate(order):
            cidx[x] = cnodes[pos]
        # shape and order
        cmap = real_map(cidx)
        if cmap != (parent, children):
            return dict(info, why="shape / child order of the copy differs", got=list(cmap), exp=[parent, children])
        bad = F.invariant(cmap[0], cmap[1])
        if bad:
            return dict(info, why="copy inconsistent: " + bad)
        if cidx[entry] is not cp:
            return dict(info, why="result does not occupy the entry node's position", got=index_of(cidx, cp))
        for x in range(n):
            if type(cidx[x]) is not type(nodes[x]):
                return dict(info, why="node class differs", node=x)
            if any(cidx[x] is o for o in nodes):
                return dict(info, why="copy shares a node object with the original", node=x)
            if attrs_of(cidx[x]) != attrs_of(nodes[x]):
                return dict(info, why="attributes differ", node=x, got=repr(attrs_of(cidx[x])), exp=repr(attrs_of(nodes[x])))
            if kind == "slotuser":
                if cidx[x].tags is nodes[x].tags:
                    return dict(info, why="mutable slot value shared between copy and original", node=x)
                if nodes[x].partner is not None and cidx[x].partner is not cidx[0]:
                    return dict(info, why="slot referring to a tree node does not point at the copied counterpart", node=x)
            if link_targets[x] is not None:
                t = cidx[x].target
                if outside is not None and x == 1:
                    if t is outside or type(t) is not Node or t.name != "outside" or len(t.children) != 1:
                        return dict(info, why="link to another tree: target not copied along", node=x)
                elif t is not cidx[link_targets[x]]:
                    return dict(info, why="symlink target does not point at the copied counterpart", node=x)
        # independence: every single move in the copy leaves the original untouched, and vice versa
        for a in range(n):
            for b in [None] + list(range(n)):
                c2 = do_copy(nodes[entry], method)
                c2nodes = collect(root_via_parent(c2))
                c2idx = [None] * n
                for pos, x in enumerate(order):
                    c2idx[x] = c2nodes[pos]
                try:
                    c2idx[a].parent = None if b is None else c2idx[b]
                except Exception:
                    pass
                if real_map(nodes) != before:
                    return dict(info, why="mutating the copy changed the original", move=[a, b])
        for a in range(n):
            for b in [None] + list(range(n)):
                fresh = make(kind, pv, link_targets)
                c3 = do_copy(fresh[entry], method)
                c3nodes = collect(root_via_parent(c3))
                try:
                    fresh[a].parent = None if b is None else fresh[b]
                except Exception:
                    pass
                c3idx = [None] * n
                for pos, x in enumerate(order):
                    c3idx[x] = c3nodes[pos]
                if real_map(c3idx) != (parent, children):
                    return dict(info, why="mutating the original changed the copy", move=[a, b])
    return True
