"""C12 (DotExporter, UniqueDotExporter, RenderTreeGraph) and C13 (MermaidExporter)."""
import os
import shutil
import tempfile
import warnings

from anytree import NodeMixin
from anytree.exporter import DotExporter, MermaidExporter, UniqueDotExporter

from vlib.driver import nontrivial
from vlib.nondet import concrete_region, nondet_bool, nondet_int, nondet_sym

from .common import build, index_of, m_depth, m_preorder, model_from_pv, pick_parent_vector

BS = chr(92)
NAMES = ["a", "a b", '"', BS, 'a"b' + BS, u"é", "a", 7, "x" + BS + BS + '"', "->", "", "100%", "a%sb%%", "x" + chr(10) + "y", u"p\u2028q"]


class G(NodeMixin):
    def __init__(self, i):
        self.i = i


class GE(NodeMixin):
    """value/container semantics: all instances equal (and hashable), empty, falsy"""

    def __init__(self, i):
        self.i = i

    def __eq__(self, other):
        return True

    def __ne__(self, other):
        return False

    def __hash__(self):
        return 4

    def __len__(self):
        return 0


def ref_esc(value):
    out = []
    for ch in str(value):
        if ch == '"' or ch == BS:
            out.append(BS)
        out.append(ch)
    return "".join(out)


def unesc(s):
    out = []
    k = 0
    while k < len(s):
        if s[k] == BS:
            k += 1
            if k >= len(s):
                return None
        elif s[k] == '"':
            return None
        out.append(s[k])
        k += 1
    return "".join(out)


def read_quoted(line, pos):
    """parse a DOT double-quoted string starting at line[pos]; -> (raw content, position after closing quote) or None"""
    if pos >= len(line) or line[pos] != '"':
        return None
    k = pos + 1
    while k < len(line):
        if line[k] == BS:
            k += 2
            continue
        if line[k] == '"':
            return line[pos + 1:k], k + 1
        k += 1
    return None


def admitted_sets(parent, children, s, stopf, filtf, maxlevel):
    """declared nodes in pre-order, and the admitted-links per the statement"""
    declared = []

    def rec(x, d):
        if maxlevel is not None and not d < maxlevel:
            return
        if stopf(x):
            return
        if filtf(x):
            declared.append(x)
        for c in children[x]:
            rec(c, d + 1)

    rec(s, 0)
    dset = set(declared)
    edges = [(p, c) for p in declared for c in children[p] if c in dset]
    return declared, edges


def f6_extra(parent, children, s, declared, stopf, filtf, maxlevel):
    """edges the unrepaired DotExporter additionally emits (known finding F6): parent declared, child within the
    depth limit and passing filter_, but stop(child) true - so the child itself is not declared."""
    rel = lambda x: m_depth(parent, x) - m_depth(parent, s)
    out = []
    for p in declared:
        for c in children[p]:
            if (maxlevel is None or rel(c) < maxlevel) and filtf(c) and stopf(c):
                out.append((p, c))
    return out


def _flags():
    stopm, filtm = {}, {}

    def stopi(i):
        if i not in stopm:
            stopm[i] = nondet_bool("stop%d" % i)
        return stopm[i]

    def filti(i):
        if i not in filtm:
            filtm[i] = nondet_bool("filt%d" % i)
        return filtm[i]

    return stopi, filti, stopm, filtm


# (name rotation, custom functions?, indent, custom nodenamefunc?)
VARIANTS = [(0, False, None, False), (2, False, None, False), (8, False, None, False), (4, True, 0, False), (7, True, 3, True), (5, True, 1, False),
            (11, False, None, False), (12, True, 2, True), (10, True, 2, False), (12, False, 2, False), (11, False, 3, False)]


def _setup(cfg):
    n = nondet_int(1, cfg["N"], "n")
    pv = pick_parent_vector(n)
    parent, children = model_from_pv(pv)
    s = nondet_int(0, n - 1, "start")
    variant = VARIANTS[nondet_int(0, len(VARIANTS) - 1, "variant")]
    nrot = variant[0]
    maxlevel = nondet_sym(int, "maxlevel") if nondet_bool("maxlevel_given") else None
    nodes = build(pv, GE if cfg.get("valsem") else G)
    for i, nd in enumerate(nodes):
        nd.name = NAMES[(nrot + i) % len(NAMES)]
    return n, pv, parent, children, s, maxlevel, nodes, variant


def dot_body(cfg):
    """C12 structure for DotExporter / UniqueDotExporter (+RenderTreeGraph): header, options, one node statement per
    declared node in pre-order, one edge statement per link between declared nodes, closing brace; custom functions,
    options, indent, graph and name verbatim; identifiers quoted+escaped."""
    n, pv, parent, children, s, maxlevel, nodes, variant = _setup(cfg)
    if maxlevel is not None and maxlevel < 0:
        return True  # the statement quantifies over maxlevel >= 0
    stopi, filti, stopm, filtm = _flags()
    preds = nondet_bool("predicates_given")
    stop = (lambda nd: stopi(nd.i)) if preds else None
    filt = (lambda nd: filti(nd.i)) if preds else None
    sf = stopi if preds else (lambda i: False)
    ff = filti if preds else (lambda i: True)
    unique = cfg["exporter"] == "unique"
    cls = UniqueDotExporter if unique else DotExporter
    custom = variant[1]
    indent = variant[2] if variant[2] is not None else 4
    kw = {} if variant[2] is None else {"indent": indent}
    if custom:
        kw = dict(graph="graph", name='my "g"', options=["rankdir=LR;", 'label="x";'], indent=indent,
                  nodeattrfunc=lambda nd: None if nd.i % 2 else 'shape=box, label="%s"' % nd.i,
                  edgeattrfunc=lambda a, b: None if b.i % 2 else "label=%d%d" % (a.i, b.i),
                  edgetypefunc=lambda a, b: "--")
        if not unique or variant[3]:
            kw["nodenamefunc"] = lambda nd: '%s:%s' % (nd.name, nd.i)
    exporter = cls(nodes[s], filter_=filt, stop=stop, maxlevel=maxlevel, **kw)
    lines = list(exporter)
    declared, edges = admitted_sets(parent, children, s, sf, ff, maxlevel)
    if len(declared) >= 2:
        nontrivial()
    ind = " " * indent
    # ---- frame
    head = "graph my \"g\" {" if custom else "digraph tree {"
    if not lines or lines[0] != head or lines[-1] != "}":
        return {"why": "header / closing brace", "lines": lines}
    body = lines[1:-1]
    if custom:
        if body[:2] != [ind + "rankdir=LR;", ind + 'label="x";']:
            return {"why": "option lines not verbatim", "lines": lines}
        body = body[2:]
    if len(body) < len(declared):
        return {"why": "fewer node statements than declared nodes", "pv": pv, "start": s, "lines": lines, "declared": declared}
    nodelines, edgelines = body[:len(declared)], body[len(declared):]
    # ---- node statements
    ids = {}
    for x, line in zip(declared, nodelines):
        if not line.startswith(ind) or (ind == "" and line.startswith(" ")):
            return {"why": "indent of node statement", "line": line}
        q = read_quoted(line, len(ind))
        if q is None:
            return {"why": "node statement does not start with a quoted identifier", "line": line, "lines": lines}
        raw, pos = q
        rest = line[pos:]
        if "nodenamefunc" in kw:
            expname = '%s:%s' % (nodes[x].name, x)
        elif unique:
            expname = None
        else:
            expname = nodes[x].name
        if expname is not None:
            if raw != ref_esc(expname) or unesc(raw) != str(expname):
                return {"why": "identifier is not the quoted+escaped name", "line": line, "name": expname}
        if custom:
            expattr = "" if x % 2 else ' [shape=box, label="%s"]' % x
            if rest != expattr + ";":
                return {"why": "nodeattrfunc result not verbatim", "line": line, "exp": expattr}
        elif unique:
            # the default attribute text (a label) is not fixed by the property: any ' [...]' is accepted
            if not (rest == ";" or (rest.startswith(" [") and rest.endswith("];"))):
                return {"why": "UniqueDotExporter node statement tail", "line": line}
        elif rest != ";":
            return {"why": "node statement tail", "line": line}
        ids[x] = raw
    if unique and "nodenamefunc" not in kw and len(set(ids.values())) != len(ids):
        return {"why": "UniqueDotExporter: two nodes share an identifier", "lines": lines}
    # ---- edge statements
    arrow = "--" if custom else "->"
    got_edges = []
    for line in edgelines:
        q = read_quoted(line, len(ind)) if line.startswith(ind) else None
        if q is None:
            return {"why": "edge statement does not start with a quoted identifier (or extra node statement)", "line": line, "lines": lines,
                    "pv": pv, "start": s, "declared": declared}
        a_raw, pos = q
        if line[pos:pos + len(arrow) + 2] != " " + arrow + " ":
            return {"why": "edge operator", "line": line}
        q2 = read_quoted(line, pos + len(arrow) + 2)
        if q2 is None:
            return {"why": "edge target is not a quoted identifier", "line": line}
        b_raw, pos2 = q2
        got_edges.append((a_raw, b_raw, line[pos2:]))

    def render(e):
        p, c = e
        attr = ""
        if custom and not c % 2:
            attr = " [label=%d%d]" % (p, c)
        return (idof(p), idof(c), attr + ";")

    def idof(x):
        if x in ids:
            return ids[x]
        if "nodenamefunc" in kw:
            return ref_esc('%s:%s' % (nodes[x].name, x))
        if unique:
            return "<undeclared %d>" % x
        return ref_esc(nodes[x].name)

    exp_edges = sorted(render(e) for e in edges)
    if sorted(got_edges) != exp_edges:
        extra = f6_extra(parent, children, s, declared, sf, ff, maxlevel)
        if extra and "F6/%s" % cfg["exporter"] in cfg.get("mask", ()):
            if unique and "nodenamefunc" not in kw:
                # undeclared children get fresh ids: compare modulo the ids of the undeclared ends
                ok = len(got_edges) == len(edges) + len(extra)
                known_ids = set(ids.values())
                rest = sorted(g for g in got_edges if g[1] in known_ids)
                und = [g for g in got_edges if g[1] not in known_ids]
                ok = ok and rest == exp_edges and sorted((g[0], g[2]) for g in und) == sorted((render(e)[0], render(e)[2]) for e in extra)
            else:
                ok = sorted(got_edges) == sorted([render(e) for e in edges] + [render(e) for e in extra])
            if ok:
                return "KNOWN:F6"
        return {"why": "edge statements differ from the links between declared nodes", "pv": pv, "start": s, "declared": declared,
                "exp": exp_edges, "got": sorted(got_edges), "stop": stopm, "filt": filtm, "lines": lines}
    # every edge end is a declared identifier (follows from equality above; kept as the statement words it)
    dec = set(ids.values())
    for a_raw, b_raw, _ in got_edges:
        if a_raw not in dec or b_raw not in dec:
            return {"why": "edge names an undeclared node", "lines": lines}
    # ---- repeated iteration gives the same lines (stable identifiers)
    if list(exporter) != lines:
        return {"why": "second iteration differs", "lines": lines}
    if unique and "nodenamefunc" not in kw:
        exporter.maxlevel = None
        exporter.stop = None
        exporter.filter_ = None
        new = type(nodes[0])(n)
        new.name = "new"
        new.parent = nodes[s]
        pre2 = []

        def walk(x):
            pre2.append(x)
            for c in children[x]:
                walk(c)
            if x == s:
                pre2.append(n)

        walk(s)
        lines2 = list(exporter)
        body2 = lines2[1 + (2 if custom else 0):-1]
        ids2 = {}
        for x, line in zip(pre2, body2):
            qq = read_quoted(line, len(ind))
            if qq is None:
                return {"why": "widened iteration: node statement", "line": line}
            ids2[x] = qq[0]
        if len(ids2) != len(pre2) or len(set(ids2.values())) != len(ids2):
            return {"why": "identifiers not distinct after the exporter saw more nodes", "first": lines, "second": lines2}
        for x in ids:
            if ids2.get(x) != ids[x]:
                return {"why": "identifier of a node changed between iterations", "first": lines, "second": lines2}
        got2 = []
        for line in body2[len(pre2):]:
            qa = read_quoted(line, len(ind))
            qb = read_quoted(line, qa[1] + len(arrow) + 2) if qa else None
            if qb is None:
                return {"why": "widened iteration: edge statement", "line": line}
            got2.append((qa[0], qb[0]))
        exp2 = sorted((ids2[p], ids2[c]) for p in pre2 if p != n for c in (children[p] + ([n] if p == s else [])))
        if sorted(got2) != exp2:
            return {"why": "widened iteration: edges", "got": sorted(got2), "exp": exp2}
    if not unique:
        with warnings.catch_warnings():
            warnings.simplefilter("ignore")
            from anytree.dotexport import RenderTreeGraph

            legacy = list(RenderTreeGraph(nodes[s], filter_=filt, stop=stop, maxlevel=maxlevel, **kw))
        if legacy != lines:
            return {"why": "RenderTreeGraph differs from DotExporter", "got": legacy, "exp": lines}
    return True


def mermaid_body(cfg):
    """C13 structure for MermaidExporter."""
    n, pv, parent, children, s, maxlevel, nodes, variant = _setup(cfg)
    if maxlevel is not None and maxlevel < 0:
        return True
    stopi, filti, stopm, filtm = _flags()
    preds = nondet_bool("predicates_given")
    stop = (lambda nd: stopi(nd.i)) if preds else None
    filt = (lambda nd: filti(nd.i)) if preds else None
    sf = stopi if preds else (lambda i: False)
    ff = filti if preds else (lambda i: True)
    custom = variant[1]
    indent = variant[2] if variant[2] is not None else 0
    kw = {} if variant[2] is None else {"indent": indent}
    if custom:
        kw = dict(graph="flowchart", name="LR", options=["%% opt", "classDef x fill:#f96;"], indent=indent,
                  nodefunc=lambda nd: '("%s")' % nd.i, edgefunc=lambda a, b: "--%d%d-->" % (a.i, b.i))
        if variant[3]:
            kw["nodenamefunc"] = lambda nd: "id_%d%s" % (nd.i, getattr(nd, "suffix", ""))
    exporter = MermaidExporter(nodes[s], filter_=filt, stop=stop, maxlevel=maxlevel, **kw)
    lines = list(exporter)
    declared, edges = admitted_sets(parent, children, s, sf, ff, maxlevel)
    if len(declared) >= 2:
        nontrivial()
    ind = " " * indent
    head = "flowchart LR" if custom else "graph TD"
    if not lines or lines[0] != head:
        return {"why": "header", "lines": lines}
    body = lines[1:]
    if custom:
        if body[:2] != [ind + "%% opt", ind + "classDef x fill:#f96;"]:
            return {"why": "option lines not verbatim", "lines": lines}
        body = body[2:]
    if len(body) != len(declared) + len(edges):
        return {"why": "number of node+edge lines", "pv": pv, "start": s, "declared": declared, "edges": edges, "lines": lines,
                "stop": stopm, "filt": filtm}
    ids = {}
    for x, line in zip(declared, body):
        suffix = ('("%s")' % x) if custom else '["%s"]' % ref_esc(nodes[x].name)
        if not line.startswith(ind) or not line.endswith(suffix):
            return {"why": "node line: indent / label", "line": line, "exp_suffix": suffix}
        ident = line[len(ind):len(line) - len(suffix)]
        if "nodenamefunc" in kw and ident != "id_%d" % x:
            return {"why": "nodenamefunc result not verbatim", "line": line}
        if not ident or ident.strip() != ident:
            return {"why": "empty / padded identifier", "line": line}
        ids[x] = ident
    if len(set(ids.values())) != len(ids):
        return {"why": "two nodes share an identifier", "lines": lines}
    exp_edges = sorted(ind + ids[p] + (("--%d%d-->" % (p, c)) if custom else "-->") + ids[c] for p, c in edges)
    if sorted(body[len(declared):]) != exp_edges:
        return {"why": "edge lines differ from the links between declared nodes", "pv": pv, "start": s, "declared": declared,
                "exp": exp_edges, "got": sorted(body[len(declared):]), "stop": stopm, "filt": filtm}
    if list(exporter) != lines:
        return {"why": "second iteration differs (identifiers not stable)", "lines": lines}
    if "nodenamefunc" in kw:
        # a custom nodenamefunc is consulted on every iteration: its results appear verbatim also after node state changed
        for nd in nodes:
            nd.suffix = "x"
        lines3 = list(exporter)
        for nd in nodes:
            del nd.suffix
        body3 = lines3[1 + (2 if custom else 0):]
        for x, line in zip(declared, body3):
            if not line.startswith(ind + "id_%dx" % x):
                return {"why": "nodenamefunc result of a later iteration not verbatim (stale identifier)", "line": line, "lines": lines3}
    if "nodenamefunc" not in kw:
        # identifiers stay distinct and stable when a later iteration of the SAME exporter sees more nodes
        exporter.maxlevel = None
        exporter.stop = None
        exporter.filter_ = None
        new = type(nodes[0])(n)
        new.name = "new"
        new.parent = nodes[s]
        allnodes = nodes + [new]
        pre2 = []

        def walk(x):
            pre2.append(x)
            for c in children[x]:
                walk(c)
            if x == s:
                pre2.append(n)

        walk(s)
        lines2 = list(exporter)
        body2 = lines2[1 + (2 if custom else 0):]
        ids2 = {}
        for x, line in zip(pre2, body2):
            suffix = ('("%s")' % x) if custom else '["%s"]' % ref_esc(allnodes[x].name)
            if not line.endswith(suffix):
                return {"why": "widened iteration: node line", "line": line, "lines": lines2}
            ids2[x] = line[len(ind):len(line) - len(suffix)]
        if len(ids2) != len(pre2) or len(set(ids2.values())) != len(ids2):
            return {"why": "identifiers not distinct after the exporter saw more nodes", "first": lines, "second": lines2}
        for x in ids:
            if ids2.get(x) != ids[x]:
                return {"why": "identifier of a node changed between iterations", "first": lines, "second": lines2}
        exp2 = sorted(ind + ids2[p] + (("--%d%d-->" % (p, c)) if custom else "-->") + ids2[c]
                      for p in pre2 if p != n for c in (children[p] + ([n] if p == s else [])))
        if sorted(body2[len(pre2):]) != exp2:
            return {"why": "widened iteration: edges", "got": sorted(body2[len(pre2):]), "exp": exp2}
    return True


ALPHA = ['"', BS, "a", u"é"]


def esc_body(cfg):
    """escaping: esc(name) backslash-escapes exactly the double quotes and backslashes; the name is recoverable;
    distinct names give distinct identifiers.  Strings: all over a 4-letter alphabet up to length 3 (picked), and
    fully symbolic strings of length <= 2 (any code point)."""
    esc = MermaidExporter.esc if cfg.get("mermaid") else DotExporter.esc
    if nondet_bool("symbolic_string"):
        sv = nondet_sym(str, "name")
        if len(sv) > 2:
            return True
        t = nondet_sym(str, "other")
        if len(t) > 2:
            return True
        nontrivial()
        e = esc(sv)
        if e != ref_esc(sv):
            return {"why": "esc differs from the reference escaping", "name": sv, "got": e}
        if unesc(e) != sv:
            return {"why": "name not recoverable from its escaped form", "name": sv, "got": e}
        if sv != t and esc(t) == e:
            return {"why": "two distinct names share an identifier", "a": sv, "b": t}
        return True
    ln = nondet_int(0, 3, "len")
    sv = "".join(ALPHA[nondet_int(0, 3, "ch%d" % j)] for j in range(ln))
    with concrete_region():
        nontrivial()
        e = esc(sv)
        if e != ref_esc(sv) or unesc(e) != sv:
            return {"why": "esc / unesc", "name": sv, "got": e}
    return True


def files_body(cfg):
    """to_dotfile / MermaidExporter.to_file write exactly the iterated lines (mermaid: inside a ```mermaid fence)."""
    n = nondet_int(1, cfg["N"], "n")
    pv = pick_parent_vector(n)
    nrot = nondet_int(0, len(NAMES) - 1, "name_rotation")
    with concrete_region():
        nodes = build(pv, G)
        for i, nd in enumerate(nodes):
            nd.name = NAMES[(nrot + i) % len(NAMES)]
        nontrivial()
        d = tempfile.mkdtemp(prefix="verif_c12_")
        try:
            import codecs

            if cfg.get("mermaid"):
                ex = MermaidExporter(nodes[0])
                fn = os.path.join(d, "t.md")
                ex.to_file(fn)
                with codecs.open(fn, "r", "utf-8") as fh:
                    text = fh.read()
                exp = "```mermaid\n" + "".join(l + "\n" for l in MermaidExporter(nodes[0])) + "```"
            else:
                ex = (UniqueDotExporter if cfg.get("unique") else DotExporter)(nodes[0])
                fn = os.path.join(d, "t.dot")
                ex.to_dotfile(fn)
                with codecs.open(fn, "r", "utf-8") as fh:
                    text = fh.read()
                exp = "".join(l + "\n" for l in (UniqueDotExporter if cfg.get("unique") else DotExporter)(nodes[0]))
            if text != exp:
                return {"why": "file content differs from the iterated lines", "got": text, "exp": exp}
        finally:
            shutil.rmtree(d, ignore_errors=True)
    return True
