"""C20: a symlink node has its own tree position and forwards every other attribute to its target."""
from anytree import LightNodeMixin, Node, SymlinkNode

from oracle import forest as F
from vlib.driver import nontrivial
from vlib.nondet import nondet_bool, nondet_int, nondet_sym

from .common import index_of, model_from_pv, real_map

class FNode(Node):
    """an ordinary node with container semantics: empty and falsy"""

    def __len__(self):
        return 0


ATTRS = ["foo", "name", "x1", "_p", "__tag__"]
MISSING = object()


def pick_universe(cfg):
    """node 0 is ordinary; node i>0 is ordinary or a link to an earlier node (possibly itself a link)"""
    n = cfg["N"]
    targets = [None]
    for i in range(1, n):
        t = nondet_int(-1, i - 1, "target%d" % i)
        targets.append(None if t < 0 else t)
    pv = [-1]
    for i in range(1, n):
        pv.append(nondet_int(-1, i - 1, "p%d" % i))
    return n, targets, pv


def final_target(targets, i):
    while targets[i] is not None:
        i = targets[i]
    return i


def build(n, targets, pv, kwargs_on=None, kwargs_val=None, attr=None):
    """nodes are created in index order and placed through the constructors' parent= argument"""
    nodes = []
    for i in range(n):
        par = nodes[pv[i]] if pv[i] >= 0 else None
        if targets[i] is None:
            nodes.append(FNode("n%d" % i, parent=par) if i % 2 == 0 else Node("n%d" % i, parent=par))
        elif kwargs_on == i:
            nodes.append(SymlinkNode(nodes[targets[i]], parent=par, **{attr: kwargs_val}))
        else:
            nodes.append(SymlinkNode(nodes[targets[i]], parent=par))
    return nodes


class RefusingTarget(Node):
    """a target with a read-only property"""

    def __init__(self):
        Node.__init__(self, "rt")

    @property
    def locked(self):
        return "fixed"


class SlotTarget(LightNodeMixin):
    """a target without __dict__: unknown attributes cannot be set"""

    __slots__ = ("a",)


def assign2(obj, attr, value):
    if attr == "locked":
        obj.locked = value
    else:
        obj.extra = value


def assign(obj, attr, value):
    """obj.<attr> = value as a plain assignment statement (CrossHair runs the builtin setattr() un-traced, which
    breaks when a user-defined __setattr__ inspects a symbolic value)"""
    if attr == "foo":
        obj.foo = value
    elif attr == "name":
        obj.name = value
    elif attr == "x1":
        obj.x1 = value
    elif attr == "_p":
        obj._p = value
    elif attr == "__tag__":
        obj.__tag__ = value
    elif attr == "lst":
        obj.lst = value
    else:
        raise ValueError(attr)


def same(a, b):
    return a is b or (type(a) is type(b) and a == b)


def read(nd, attr):
    try:
        return getattr(nd, attr)
    except AttributeError:
        return MISSING


def check_reads(nodes, targets, store, attrs):
    """every node reads every attribute: the value stored on its final target, or AttributeError"""
    for i, nd in enumerate(nodes):
        ft = final_target(targets, i)
        for a in attrs:
            exp = store[ft].get(a, MISSING)
            got = read(nd, a)
            if exp is MISSING or got is MISSING:
                if exp is not got:
                    return {"why": "attribute presence", "reader": i, "attr": a, "expected_present": exp is not MISSING}
            elif not same(got, exp):
                return {"why": "attribute value", "reader": i, "attr": a}
    return None


def forward_body(cfg):
    """forward: constructor keyword attributes land on the target; a write via any node (link, link to link,
    target) is visible through every node that resolves to the same final target and nowhere else; a name the
    target lacks raises AttributeError; structure is untouched by attribute traffic."""
    n, targets, pv = pick_universe(cfg)
    parent, children = model_from_pv(pv)
    attr = ATTRS[nondet_int(0, len(ATTRS) - 1, "attr")]
    links = [i for i in range(n) if targets[i] is not None]
    kw_on = None
    store = [dict() for _ in range(n)]
    for i in range(n):
        if targets[i] is None:
            store[i]["name"] = "n%d" % i
    kw_val = None
    if links and nondet_bool("constructor_kwargs"):
        kw_on = links[nondet_int(0, len(links) - 1, "kw_link")]
        kw_val = nondet_sym(int, "kwval")
        store[final_target(targets, kw_on)][attr] = kw_val
    nodes = build(n, targets, pv, kw_on, kw_val, attr)
    if links:
        nontrivial()
    info = {"targets": targets, "pv": pv, "attr": attr, "kwargs_on": kw_on}
    r = check_reads(nodes, targets, store, ATTRS)
    if r:
        return dict(info, phase="after construction", **r)
    for w in range(n):
        v = nondet_sym(int, "v%d" % w)
        assign(nodes[w], attr, v)
        store[final_target(targets, w)][attr] = v
        r = check_reads(nodes, targets, store, ATTRS)
        if r:
            return dict(info, phase="after write via node %d" % w, **r)
        # the link itself stores nothing but its bookkeeping and its target
        for i in links:
            extra = [k for k in nodes[i].__dict__ if k not in ("target", "_NodeMixin__parent", "_NodeMixin__children")]
            if extra:
                return dict(info, why="attribute stored on the link itself", link=i, keys=extra)
    # assigning an equal-but-not-identical object through a link replaces the stored object
    for w in range(n):
        ft = final_target(targets, w)
        first = ["v", w]
        assign(nodes[ft], "lst", first)
        second = ["v", w]
        assign(nodes[w], "lst", second)
        if getattr(nodes[ft], "lst", None) is not second:
            return dict(info, why="assignment of an equal but distinct object through node %d was dropped" % w)
    # a target that refuses the attribute (read-only property / __slots__): the assignment through the link fails
    # like the direct one; nothing is stored on the link and the name stays unreadable through it
    for tcls in (RefusingTarget, SlotTarget):
        t = tcls()
        link = SymlinkNode(t)
        for name in ("locked", "extra"):
            try:
                assign2(t, name, 5)
                direct = "ok"
            except AttributeError:
                direct = "AttributeError"
            try:
                assign2(link, name, 6)
                via = "ok"
            except AttributeError:
                via = "AttributeError"
            if direct == "AttributeError" and via != "AttributeError":
                return dict(info, why="assignment refused by the target succeeded through the link", target=tcls.__name__, attr=name)
            if name in link.__dict__:
                return dict(info, why="attribute stored on the link itself", target=tcls.__name__, attr=name)
    if real_map(nodes) != (parent, children):
        return dict(info, why="attribute traffic changed the structure")
    return True


def _apply_real(nodes, op):
    a = nodes[op[1]]
    try:
        if op[0] == "parent":
            a.parent = None if op[2] is None else nodes[op[2]]
        elif op[0] == "del":
            del a.children
        else:
            a.children = [nodes[x] for x in op[2]]
    except Exception as exc:
        return type(exc).__name__
    return "ok"


def _pick_struct(n):
    kind = nondet_int(0, 2, "op")
    a = nondet_int(0, n - 1, "a")
    if kind == 0:
        b = nondet_int(-1, n - 1, "b")
        return ("parent", a, None if b < 0 else b)
    if kind == 1:
        return ("del", a)
    x = nondet_int(0, n - 1, "x0")
    y = nondet_int(0, n - 1, "x1")
    return ("children", a, (x,) if x == y else (x, y))


def independent_body(cfg):
    """independent: a structural call on a link (or on a target) changes exactly what the same call changes between
    ordinary nodes: positions of link and target are independent, attributes are unaffected."""
    n, targets, pv = pick_universe(cfg)
    parent, children = model_from_pv(pv)
    op = _pick_struct(n)
    nodes = build(n, targets, pv)
    store = [dict() for _ in range(n)]
    for i in range(n):
        if targets[i] is None:
            store[i]["name"] = "n%d" % i
            nodes[i].foo = i
            store[i]["foo"] = i
    exp_out, eparent, echildren = F.apply_functional(parent, children, op, "mixin")
    got = _apply_real(nodes, op)
    if any(t is not None for t in targets):
        nontrivial()
    info = {"targets": targets, "pv": pv, "op": op}
    if (got == "ok") != (exp_out == "ok") or (got != "ok" and got != exp_out):
        return dict(info, why="outcome differs from ordinary nodes", got=got, exp=exp_out)
    if exp_out == "ok" and real_map(nodes) != (eparent, echildren):
        return dict(info, why="structure differs from what the call does between ordinary nodes", got=list(real_map(nodes)), exp=[eparent, echildren])
    if exp_out != "ok" and op[0] != "children" and real_map(nodes) != (parent, children):
        return dict(info, why="refused call changed the structure")
    for i in range(n):
        if targets[i] is not None and nodes[i].target is not nodes[targets[i]]:
            return dict(info, why="target reference changed")
    r = check_reads(nodes, targets, store, ["foo", "name", "x1"])
    if r:
        return dict(info, **r)
    return True


def interleave_body(cfg):
    """interleave: k steps, each an attribute write via some node or a parent assignment; after every step
    structure == forest model and every read == attribute model."""
    n, targets, pv = pick_universe(cfg)
    parent, children = model_from_pv(pv)
    nodes = build(n, targets, pv)
    store = [dict() for _ in range(n)]
    for i in range(n):
        if targets[i] is None:
            store[i]["name"] = "n%d" % i
    if any(t is not None for t in targets):
        nontrivial()
    hist = []
    from vlib.nondet import concrete_region

    with concrete_region():
        return _interleave(cfg, n, targets, pv, parent, children, nodes, store, hist)


def _interleave(cfg, n, targets, pv, parent, children, nodes, store, hist):
    for step in range(cfg["K"]):
        kind = nondet_int(0, 2 if cfg.get("retarget", True) else 1, "kind%d" % step)
        if kind == 2:
            # re-target a link at a later time: forwarding follows the link's CURRENT target
            links = [i for i in range(n) if targets[i] is not None]
            if not links:
                return True
            x = links[nondet_int(0, len(links) - 1, "link%d" % step)]
            y = nondet_int(0, n - 1, "newtarget%d" % step)
            z, cyc = y, False
            while z is not None:
                if z == x:
                    cyc = True
                    break
                z = targets[z]
            if cyc:
                return True  # a link must not (transitively) point at itself
            nodes[x].target = nodes[y]
            targets[x] = y
            hist.append(("retarget", x, y))
        elif kind == 1:
            w = nondet_int(0, n - 1, "writer%d" % step)
            attr = ("foo", "x1")[nondet_int(0, 1, "attr%d" % step)]  # not 'name': it is %r-formatted into LoopError messages
            v = 100 + step  # concrete: node reprs (%r of every attribute) end up in LoopError messages
            setattr(nodes[w], attr, v)
            store[final_target(targets, w)][attr] = v
            hist.append(("write", w, attr))
        else:
            a = nondet_int(0, n - 1, "a%d" % step)
            b = nondet_int(-1, n - 1, "b%d" % step)
            op = ("parent", a, None if b < 0 else b)
            out, np_, nc_ = F.apply_functional(parent, children, op, "mixin")
            got = _apply_real(nodes, op)
            hist.append(op)
            if (got == "ok") != (out == "ok"):
                return {"why": "outcome", "targets": targets, "pv": pv, "history": hist, "got": got, "exp": out}
            parent, children = np_, nc_
        if real_map(nodes) != (parent, children):
            return {"why": "structure differs from the forest model", "targets": targets, "pv": pv, "history": hist}
        r = check_reads(nodes, targets, store, ["foo", "name", "x1"])
        if r:
            return dict({"targets": targets, "pv": pv, "history": hist}, **r)
    return True
