"""C04 (navigation attributes / util helpers == definitions) and C15 (Walker.walk)."""
import warnings

from anytree import LightNodeMixin, NodeMixin, Walker, util
from anytree.walker import WalkError

from oracle import forest as F
from vlib.driver import nontrivial
from vlib.nondet import concrete_region, nondet_bool, nondet_int

from .common import (idx_seq, index_of, m_height, m_path, m_preorder, model_from_pv, pick_parent_vector)


class M(NodeMixin):
    def __init__(self, i):
        self.i = i


class L(LightNodeMixin):
    __slots__ = ("i",)

    def __init__(self, i):
        self.i = i


class ME(NodeMixin):
    """value semantics: all instances compare equal"""

    def __init__(self, i):
        self.i = i

    def __eq__(self, other):
        return True

    def __ne__(self, other):
        return False

    def __hash__(self):
        return 5

    def __len__(self):
        return 0

    def __bool__(self):
        return False


class LEQ(LightNodeMixin):
    """LightNodeMixin class with value/container semantics"""

    __slots__ = ("i",)

    def __init__(self, i):
        self.i = i

    def __eq__(self, other):
        return True

    def __ne__(self, other):
        return False

    def __hash__(self):
        return 6

    def __len__(self):
        return 0


CLS = {"mixin": M, "light": L, "mixin_eq": ME, "light_eq": LEQ}


def _x(nodes, v):
    return None if v is None else index_of(nodes, v)


def definitions(parent, children, i):
    path = m_path(parent, i)
    pre = m_preorder(children, i)
    p = parent[i]
    sib = [] if p is None else [c for c in children[p] if c != i]
    left = right = None
    if p is not None:
        k = children[p].index(i)
        left = children[p][k - 1] if k > 0 else None
        right = children[p][k + 1] if k + 1 < len(children[p]) else None
    return {
        "parent": p,
        "children": list(children[i]),
        "path": path,
        "iter_path_reverse": list(reversed(path)),
        "ancestors": path[:-1],
        "root": path[0],
        "depth": len(path) - 1,
        "is_root": p is None,
        "is_leaf": not children[i],
        "siblings": sib,
        "descendants": pre[1:],
        "leaves": [x for x in pre if not children[x]],
        "size": len(pre),
        "height": m_height(children, i),
        "leftsibling": left,
        "rightsibling": right,
    }


def observed(nodes, nd, with_typo):
    out = {
        "parent": _x(nodes, nd.parent),
        "children": idx_seq(nodes, nd.children),
        "path": idx_seq(nodes, nd.path),
        "iter_path_reverse": idx_seq(nodes, nd.iter_path_reverse()),
        "ancestors": idx_seq(nodes, nd.ancestors),
        "root": _x(nodes, nd.root),
        "depth": nd.depth,
        "is_root": nd.is_root,
        "is_leaf": nd.is_leaf,
        "siblings": idx_seq(nodes, nd.siblings),
        "descendants": idx_seq(nodes, nd.descendants),
        "leaves": idx_seq(nodes, nd.leaves),
        "size": nd.size,
        "height": nd.height,
        "leftsibling": _x(nodes, util.leftsibling(nd)),
        "rightsibling": _x(nodes, util.rightsibling(nd)),
    }
    types_ok = all(type(getattr(nd, a)) is tuple for a in ("children", "path", "ancestors", "siblings", "descendants", "leaves"))
    if with_typo:
        with warnings.catch_warnings():
            warnings.simplefilter("ignore")
            out["anchestors"] = idx_seq(nodes, nd.anchestors)
    return out, types_ok


def common_prefix(seqs):
    out = []
    for tup in zip(*seqs):
        if all(t == tup[0] for t in tup[1:]):
            out.append(tup[0])
        else:
            break
    return out


class MV(NodeMixin):
    """node whose _pre_attach can veto (flag set by the harness)"""

    VETO = [None]

    def __init__(self, i):
        self.i = i

    def _pre_attach(self, parent):
        if MV.VETO[0] is self:
            raise RuntimeError("veto")


def _check_all(nodes, parent, children, cls, info):
    n = len(nodes)
    for i in range(n):
        exp = definitions(parent, children, i)
        got, types_ok = observed(nodes, nodes[i], cls not in (L, LEQ))
        if cls not in (L, LEQ):
            exp["anchestors"] = exp["ancestors"]
        if got != exp:
            d = [k for k in exp if got.get(k) != exp[k]]
            return dict(info, why="attribute differs from its definition", node=i, attr=d, got=[got[k] for k in d], exp=[exp[k] for k in d])
        if not types_ok:
            return dict(info, why="tuple-valued attribute is not a tuple", node=i)
    anc = [m_path(parent, i)[:-1] for i in range(n)]
    for i in range(n):
        if idx_seq(nodes, util.commonancestors(nodes[i])) != anc[i]:
            return dict(info, why="commonancestors(single)", nodes=[i])
        for j in range(n):
            e2 = common_prefix([anc[i], anc[j]])
            g2 = util.commonancestors(nodes[i], nodes[j])
            if type(g2) is not tuple or idx_seq(nodes, g2) != e2:
                return dict(info, why="commonancestors(pair)", nodes=[i, j], got=idx_seq(nodes, g2), exp=e2)
            for k in range(n):
                e3 = common_prefix([anc[i], anc[j], anc[k]])
                g3 = idx_seq(nodes, util.commonancestors(nodes[i], nodes[j], nodes[k]))
                if g3 != e3:
                    return dict(info, why="commonancestors(triple)", nodes=[i, j, k], got=g3, exp=e3)
    return None


def c04_body(cfg):
    """C04: every navigation attribute of every node, util.left/rightsibling, util.commonancestors of every
    pair and triple == definition over the CURRENT parent/children links: checked on the built forest and - when
    cfg['move'] - again right after one symbolic structural call, which may also be a move vetoed by the moved
    node's _pre_attach hook (the node then stays detached): values must never lag behind the links."""
    cls = CLS[cfg.get("cls", "mixin")]
    n = nondet_int(1, cfg["N"], "n")
    pv = pick_parent_vector(n, forest=not cfg.get("single_tree7"))
    parent, children = model_from_pv(pv)
    move = None
    veto = False
    if cfg.get("move") and nondet_bool("after_move"):
        kind = nondet_int(0, 2, "kind")
        a = nondet_int(0, n - 1, "a")
        if kind == 0:
            b = nondet_int(-1, n - 1, "b")
            move = ("parent", a, None if b < 0 else b)
            veto = cls is M and nondet_bool("vetoed_by_pre_attach")
        elif kind == 1:
            x0 = nondet_int(0, n - 1, "x0")
            x1 = nondet_int(0, n - 1, "x1")
            move = ("children", a, (x0, x1) if x0 != x1 else (x0,))
        else:
            move = ("del", a)
    with concrete_region():
        rcls = MV if (cls is M and cfg.get("move")) else cls
        nodes = [rcls(i) for i in range(n)]
        for i, p in enumerate(pv):
            if p >= 0:
                nodes[i].parent = nodes[p]
        info = {"pv": pv, "move": move, "vetoed": veto}
        if n >= 3:
            nontrivial()
        r = _check_all(nodes, parent, children, cls, dict(info, phase="before"))
        if r or move is None:
            return r or True
        MV.VETO[0] = nodes[move[1]] if veto else None
        try:
            if move[0] == "parent":
                nodes[move[1]].parent = None if move[2] is None else nodes[move[2]]
            elif move[0] == "children":
                nodes[move[1]].children = [nodes[x] for x in move[2]]
            else:
                del nodes[move[1]].children
        except Exception:
            pass  # refused or vetoed: whatever the links are now, the derived values must describe them
        finally:
            MV.VETO[0] = None
        # the model of the second round is read off the two primitive links (parent / children) themselves
        from .common import real_map

        parent, children = real_map(nodes)
        if F.invariant(parent, children) is not None:
            return True  # inconsistent links are C01's subject
        return _check_all(nodes, parent, children, cls, dict(info, phase="after")) or True


def c15_move_body(cfg):
    """C15 over a history: walk(s, e), then one structural change anywhere in the forest, then walk(s, e) again -
    the second result must be the unique path of the CURRENT tree (values are computed from the current links)."""
    cls = CLS[cfg.get("cls", "mixin")]
    n = nondet_int(2, cfg["N"], "n")
    pv = pick_parent_vector(n, forest=True)
    parent, children = model_from_pv(pv)
    s = nondet_int(0, n - 1, "start")
    e = nondet_int(0, n - 1, "end")
    a = nondet_int(0, n - 1, "moved")
    b = nondet_int(-1, n - 1, "new_parent")
    move = ("parent", a, None if b < 0 else b)
    with concrete_region():
        out, np_, nc_ = F.apply_functional(parent, children, move, "light")
        if out != "ok" or (np_, nc_) == (parent, children):
            return True
        nodes = [cls(i) for i in range(n)]
        for i, p in enumerate(pv):
            if p >= 0:
                nodes[i].parent = nodes[p]
        try:
            Walker().walk(nodes[s], nodes[e])
        except WalkError:
            pass
        nodes[a].parent = None if move[2] is None else nodes[move[2]]
        nontrivial()
        ps, pe = m_path(np_, s), m_path(np_, e)
        try:
            res = Walker().walk(nodes[s], nodes[e])
        except WalkError:
            res = "WalkError"
        if ps[0] != pe[0]:
            if res != "WalkError":
                return {"why": "no WalkError after the trees were separated", "pv": pv, "move": move, "pair": [s, e]}
            return True
        if res == "WalkError":
            return {"why": "WalkError although both nodes are now in one tree", "pv": pv, "move": move, "pair": [s, e]}
        k = len(common_prefix([ps, pe]))
        exp = [list(reversed(ps[k:])), ps[k - 1], pe[k:]]
        got = [idx_seq(nodes, res[0]), index_of(nodes, res[1]), idx_seq(nodes, res[2])]
        if got != exp:
            return {"why": "walk after a mutation does not reflect the current links", "pv": pv, "move": move, "pair": [s, e], "got": got, "exp": exp}
    return True


def c15_body(cfg):
    """C15: Walker.walk for every ordered pair of a symbolic forest (same tree: unique path through the LCA;
    different trees: WalkError)."""
    cls = CLS[cfg.get("cls", "mixin")]
    n = cfg["N"] if cfg.get("exactN") else nondet_int(1, cfg["N"], "n")
    pv = pick_parent_vector(n, forest=not cfg.get("single_tree"))
    parent, children = model_from_pv(pv)
    s = nondet_int(0, n - 1, "start")
    e = nondet_int(0, n - 1, "end")
    with concrete_region():
        nodes = [cls(i) for i in range(n)]
        for i, p in enumerate(pv):
            if p >= 0:
                nodes[i].parent = nodes[p]
        ps, pe = m_path(parent, s), m_path(parent, e)
        try:
            res = Walker().walk(nodes[s], nodes[e])
        except WalkError:
            res = "WalkError"
        if ps[0] != pe[0]:
            if res != "WalkError":
                return {"why": "no WalkError for nodes of different trees", "pv": pv, "pair": [s, e]}
            return True
        if res == "WalkError":
            return {"why": "WalkError inside one tree", "pv": pv, "pair": [s, e]}
        k = len(common_prefix([ps, pe]))
        exp = [list(reversed(ps[k:])), ps[k - 1], pe[k:]]
        if len(ps) + len(pe) - 2 * k >= 2:
            nontrivial()
        if type(res) is not tuple or len(res) != 3 or type(res[0]) is not tuple or type(res[2]) is not tuple:
            return {"why": "result is not (tuple, node, tuple)", "pv": pv, "pair": [s, e]}
        got = [idx_seq(nodes, res[0]), index_of(nodes, res[1]), idx_seq(nodes, res[2])]
        if got != exp:
            return {"why": "walk differs", "pv": pv, "pair": [s, e], "got": got, "exp": exp}
        # structural reading of the statement, independent of the path computation above
        up, common, down = got
        chain = up + [common] + down
        if len(set(chain)) != len(chain) or chain[0] != s or chain[-1] != e:
            return {"why": "not a simple path from start to end", "pv": pv, "pair": [s, e], "got": got}
        for x, y in zip(up, up[1:] + [common]):
            if parent[x] != y:
                return {"why": "upwards element is not the child of the next", "pv": pv, "pair": [s, e], "got": got}
        for x, y in zip([common] + down, down):
            if parent[y] != x:
                return {"why": "downwards element is not the parent of the next", "pv": pv, "pair": [s, e], "got": got}
        back = Walker.walk(nodes[e], nodes[s])
        gb = [idx_seq(nodes, back[0]), index_of(nodes, back[1]), idx_seq(nodes, back[2])]
        if gb != [list(reversed(down)), common, list(reversed(up))]:
            return {"why": "walk(end, start) is not the mirror image", "pv": pv, "pair": [s, e], "got": gb}
    return True
