"""C07 (Resolver.get) and the E-CH part of C08 (Resolver.glob)."""
from anytree import NodeMixin, Resolver, Walker
from anytree.resolver import ChildResolverError, ResolverError, RootResolverError

from oracle import paths as P
from vlib.driver import nontrivial
from vlib.nondet import concrete_region, nondet_bool, nondet_int

from .common import build, idx_seq, index_of, m_path, model_from_pv, pick_parent_vector


def _mk(sep):
    class C(NodeMixin):
        separator = sep

        def __init__(self, i):
            self.i = i

        def __repr__(self):
            return "C%d" % self.i

    return C


def _mk_valsem(sep):
    class CV(NodeMixin):
        """value/container semantics: all instances equal, empty, falsy"""

        separator = sep

        def __init__(self, i):
            self.i = i

        def __repr__(self):
            return "CV%d" % self.i

        def __eq__(self, other):
            return True

        def __ne__(self, other):
            return False

        def __hash__(self):
            return 9

        def __len__(self):
            return 0

    return CV


SEPS = ["/", ".", "|", "::"]
CLS = dict((s, _mk(s)) for s in SEPS)
CLS_VALSEM = dict((s, _mk_valsem(s)) for s in SEPS)

BS = chr(92)
POOL = [u"é", "a", "A", "a.b", "a*b", "x?", "ab", "AB", "[", "b", "(+", 7, "a/b", "B", "a" + BS + "b", "^a$", u"É", "a|b", "..a", "a b", "a" + chr(10) + "b", "A*"]


def classify(exc):
    if isinstance(exc, RootResolverError):
        return "RootResolverError"
    if isinstance(exc, ChildResolverError):
        return "ChildResolverError"
    if type(exc) is ResolverError:
        return "ResolverError"
    return "Other:" + type(exc).__name__


def call(fn):
    try:
        return ("ok", fn())
    except Exception as exc:
        return (classify(exc), None)


def pick_named_tree(cfg, sep):
    n = nondet_int(1, cfg["N"], "n")
    pv = pick_parent_vector(n)
    rot = nondet_int(0, cfg.get("rotations", len(POOL)) - 1, "name_rotation")
    stride = nondet_int(1, 2, "name_stride") if cfg.get("strides", 1) == 2 else 1
    names = [POOL[(rot + stride * i) % len(POOL)] for i in range(n)]
    return n, pv, names


def swapcase(s):
    return "".join(ch.lower() if ch.isupper() else ch.upper() for ch in s)


def components(n, snames, sep, wildcards):
    comps = list(snames) + [swapcase(snames[0]), "..", ".", "", "zz"]
    if wildcards:
        comps += ["*", snames[0][:1] + "*", "?", "*" + snames[-1][-1:], "**", "?" * len(snames[0])]
    return comps


def get_body(cfg):
    """C07 get_semantics: for a picked tree, names and path (<= L components), every start node x leading/trailing
    separator x ignorecase x relax is evaluated in-path against the independent path interpreter."""
    sep = cfg.get("sep", "/")
    n, pv, names = pick_named_tree(cfg, sep)
    parent, children = model_from_pv(pv)
    snames = [str(x) for x in names]
    comps = components(n, snames, sep, False)
    L = nondet_int(0, cfg["L"], "ncomp")
    parts = [comps[nondet_int(0, len(comps) - 1, "comp%d" % j)] for j in range(L)]
    if cfg.get("missing_attr"):
        # the last node has no path attribute at all: it resolves under the name str(None)
        snames[-1] = "None"
    with concrete_region():
        nodes = build(pv, (CLS_VALSEM if cfg.get("valsem") else CLS)[sep])
        for k, (nd, nm) in enumerate(zip(nodes, names)):
            if not (cfg.get("missing_attr") and k == n - 1):
                nd.name = nm
        nontrivial()
        rootname = None
        for lead in (0, 1, 2, 3):
            for trail in ("", sep):
                for start in range(n):
                    r = P.root_of(parent, start)
                    if lead == 0:
                        path = sep.join(parts) + trail
                    elif lead == 1:
                        path = sep + sep.join([snames[r]] + parts) + trail
                    elif lead == 2:
                        path = sep + sep.join(parts) + trail  # first component must be the root's name
                    else:
                        path = sep + sep.join([swapcase(snames[r])] + parts) + trail
                    # the result never depends on earlier calls: the same path string is first resolved on a node of
                    # a class with ANOTHER separator (whatever that yields)
                    other_sep = "|" if sep != "|" else "/"
                    foreign = CLS[other_sep](0)
                    foreign.name = snames[r]
                    call(lambda: Resolver("name", relax=True).get(foreign, path))
                    for ignorecase in (False, True):
                        exp = P.get(parent, children, snames, start, path, sep, ignorecase)
                        for relax in (False, True):
                            res = call(lambda: Resolver("name", ignorecase=ignorecase, relax=relax).get(nodes[start], path))
                            if relax:
                                want = ("ok", exp[1]) if exp[0] == "ok" else ("ok", None)
                            else:
                                want = exp
                            got = (res[0], None if res[1] is None else index_of(nodes, res[1]))
                            if got != want:
                                return {"why": "get differs from the path semantics", "pv": pv, "names": snames, "start": start, "path": path, "sep": sep,
                                        "ignorecase": ignorecase, "relax": relax, "got": got, "exp": want}
    return True


def _unique_siblings(children, snames, ignorecase, roots):
    groups = [roots] + children
    for g in groups:
        ks = [P.fold(snames[c]) if ignorecase else snames[c] for c in g]
        if len(set(ks)) != len(ks):
            return False
    return True


def roundtrip_body(cfg):
    """C07 roundtrip: sibling-unique names => get(m, absolute path of n) is n and get(m, relative path spelled from
    Walker.walk(m, n)) is n, for every pair, separator class, pathattr and flag combination."""
    sep = SEPS[nondet_int(0, len(SEPS) - 1, "separator")]
    attr = ("name", "id")[nondet_int(0, 1, "pathattr")]
    n, pv, names = pick_named_tree(cfg, sep)
    parent, children = model_from_pv(pv)
    snames = [str(x) for x in names]
    for nm in snames:
        if nm in ("..", ".", "") or sep in nm:
            return True  # not addressable by definition
    with concrete_region():
        nodes = build(pv, CLS[sep])
        for nd, nm in zip(nodes, names):
            setattr(nd, attr, nm)
        for ignorecase in (False, True):
            if not _unique_siblings(children, snames, ignorecase, [0]):
                continue
            nontrivial()
            for relax in (False, True):
                r = Resolver(attr, ignorecase=ignorecase, relax=relax)
                for m in range(n):
                    for t in range(n):
                        ap = sep + sep.join(snames[x] for x in m_path(parent, t))
                        up, common, down = Walker().walk(nodes[m], nodes[t])
                        rp = sep.join([".."] * len(up) + [snames[index_of(nodes, d)] for d in down])
                        if up and sep in "..":
                            rp = ap  # with separator '.', the component '..' itself contains the separator: not spellable
                        for path in (ap, rp, ap + sep, swapcase(ap) if ignorecase else ap):
                            res = call(lambda: r.get(nodes[m], path))
                            if res[0] != "ok" or res[1] is not nodes[t]:
                                return {"why": "round trip", "pv": pv, "names": snames, "sep": sep, "attr": attr, "m": m, "n": t, "path": path,
                                        "ignorecase": ignorecase, "relax": relax, "got": [res[0], None if res[1] is None else index_of(nodes, res[1])]}
    return True


def glob_body(cfg):
    """C08 glob_semantics + agreement with get + cache transparency, for a picked tree, names (siblings may collide)
    and pattern; start nodes x absolute/relative x ignorecase x relax evaluated in-path."""
    sep = cfg.get("sep", "/")
    n, pv, names = pick_named_tree(cfg, sep)
    parent, children = model_from_pv(pv)
    snames = [str(x) for x in names]
    comps = components(n, snames, sep, True)
    L = nondet_int(0, cfg["L"], "ncomp")
    parts = [comps[nondet_int(0, len(comps) - 1, "comp%d" % j)] for j in range(L)]
    prelude = nondet_int(0, 2, "cache_prelude")
    with concrete_region():
        from anytree import resolver as resolver_mod

        nodes = build(pv, (CLS_VALSEM if cfg.get("valsem") else CLS)[sep])
        for nd, nm in zip(nodes, names):
            nd.name = nm
        nontrivial()
        wildfree = not any(P.is_wildcard(p) or p == "**" for p in parts)
        for lead in (0, 1, 2):
            for start in range(n):
                r = P.root_of(parent, start)
                if lead == 0:
                    path = sep.join(parts)
                elif lead == 1:
                    path = sep + sep.join([snames[r]] + parts)
                else:
                    path = sep + sep.join(["*"] + parts)
                for ignorecase in (False, True):
                    exp, dead = P.glob(parent, children, snames, start, path, sep, ignorecase)
                    Resolver._match_cache.clear()
                    rel = call(lambda: Resolver("name", ignorecase=ignorecase, relax=True).glob(nodes[start], path))
                    info = {"pv": pv, "names": snames, "start": start, "path": path, "ignorecase": ignorecase}
                    if rel[0] != "ok" or type(rel[1]) is not list:
                        return dict(info, why="relaxed glob raised / did not return a list", got=rel[0])
                    got = idx_seq(nodes, rel[1])
                    if set(got) != set(exp) or -1 in got:
                        return dict(info, why="relaxed glob: set of nodes differs", got=got, exp=exp)
                    if not any(p in ("**", "..") for p in path.split(sep)) and got != exp:
                        return dict(info, why="relaxed glob: not in tree pre-order", got=got, exp=exp)
                    if len(set(got)) != len(got) and not P.dup_allowed(path, sep):
                        return dict(info, why="relaxed glob: duplicates", got=got)
                    Resolver._match_cache.clear()
                    st = call(lambda: Resolver("name", ignorecase=ignorecase).glob(nodes[start], path))
                    if st[0] == "ok":
                        if idx_seq(nodes, st[1]) != got:
                            return dict(info, why="strict glob returns a different list than relaxed glob", got=idx_seq(nodes, st[1]), exp=got)
                    elif st[0].startswith("Other"):
                        return dict(info, why="strict glob raised a non-ResolverError", got=st[0])
                    elif not dead:
                        return dict(info, why="strict glob raised although no literal/root/'..' step is a dead end", got=st[0])
                    if wildfree and lead != 2 and _unique_siblings(children, snames, ignorecase, [r]):
                        g = P.get(parent, children, snames, start, path, sep, ignorecase)
                        if g[0] == "ok":
                            if st[0] != "ok" or idx_seq(nodes, st[1])[:1] != [g[1]]:
                                return dict(info, why="glob disagrees with get (node)", got=st[0], exp=g)
                        elif st[0] != g[0]:
                            return dict(info, why="glob disagrees with get (error class)", got=st[0], exp=g[0])
                    # ---- cache transparency: same call after other calls / at other fill levels
                    if prelude:
                        other = Resolver("name", ignorecase=not ignorecase, relax=True)
                        Resolver._match_cache.clear()  # the OTHER resolver is the first to compile this pattern
                        call(lambda: other.glob(nodes[start], path))
                        if prelude == 2:
                            dummy = nodes[0]
                            k = 0
                            while len(Resolver._match_cache) < resolver_mod._MAXCACHE - 1 and k < 100:
                                call(lambda: other.glob(dummy, "fill%d*" % k))
                                k += 1
                        again = call(lambda: Resolver("name", ignorecase=ignorecase, relax=True).glob(nodes[start], path))
                        if again[0] != "ok" or idx_seq(nodes, again[1]) != got:
                            return dict(info, why="glob result depends on earlier calls (cache state)", prelude=prelude,
                                        got=None if again[1] is None else idx_seq(nodes, again[1]), exp=got)
                        st2 = call(lambda: Resolver("name", ignorecase=ignorecase).glob(nodes[start], path))
                        if st2[0] != st[0] or (st[0] == "ok" and idx_seq(nodes, st2[1]) != idx_seq(nodes, st[1])):
                            return dict(info, why="strict glob depends on earlier calls (cache state)", prelude=prelude)
    return True
