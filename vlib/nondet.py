"""Choice points for harnesses (CBMC-style nondet_*), DESIGN 3.2a.

Three modes:
  * 'symbolic'  - running under CrossHair: Boolean choices are solver forks
                  (StateSpace.smt_fork: z3 decides feasibility, CrossHair's search
                  tree records exhaustion); values that must stay symbolic are
                  CrossHair proxies (proxy_for_type).
  * 'replay'    - plain interpreter: decisions are read from REPLAY (a list).
  * 'enumerate' - plain interpreter, used only to split work: decisions are read
                  from PREFIX; when it is exhausted NeedChoice is raised.

A PREFIX (list of concrete decisions) is consumed first in every mode: it pins the
first decisions of a partition.  Every decision is appended to TRACE.

Harness modules import this module only; it imports crosshair lazily, so harnesses
run unchanged in a plain interpreter.
"""

MODE = "replay"
PREFIX = []
REPLAY = []
TRACE = []
_pos = 0


class NeedChoice(BaseException):
    """enumerate mode: the prefix is exhausted at a choice with these options."""

    def __init__(self, options):
        BaseException.__init__(self)
        self.options = options


class ReplayExhausted(BaseException):
    pass


def begin():
    global _pos
    _pos = 0
    del TRACE[:]


def _next_fixed():
    """Return (True, value) if the next decision is pinned by PREFIX/REPLAY."""
    global _pos
    i = _pos
    if i < len(PREFIX):
        _pos = i + 1
        return True, PREFIX[i]
    if MODE == "replay":
        j = i - len(PREFIX)
        if j >= len(REPLAY):
            raise ReplayExhausted()
        _pos = i + 1
        return True, REPLAY[j]
    _pos = i + 1
    return False, None


def _fork(label):
    from crosshair.statespace import context_statespace
    from crosshair.tracers import NoTracing, is_tracing

    if is_tracing():
        with NoTracing():
            return context_statespace().smt_fork(desc=label)
    return context_statespace().smt_fork(desc=label)


def nondet_bool(label="b"):
    """A lazy flag: fresh solver-chosen Boolean, concrete result."""
    fixed, v = _next_fixed()
    if fixed:
        v = bool(v)
    elif MODE == "symbolic":
        v = True if _fork(label) else False
    else:
        raise NeedChoice([False, True])
    TRACE.append(v)
    return v


def nondet_int(lo, hi, label="i"):
    """pick: a concrete int in [lo, hi]; one solver fork per candidate value."""
    fixed, v = _next_fixed()
    if fixed:
        v = int(v)
        if not lo <= v <= hi:
            raise ValueError("replayed decision %r outside [%d,%d] at %s" % (v, lo, hi, label))
    elif MODE == "symbolic":
        v = lo
        while v < hi:
            if _fork(label):
                break
            v += 1
    else:
        raise NeedChoice(list(range(lo, hi + 1)))
    TRACE.append(v)
    return v


def nondet_choice(seq, label="c"):
    return seq[nondet_int(0, len(seq) - 1, label)]


def _proxy(typ, label):
    from crosshair.core import proxy_for_type
    from crosshair.tracers import ResumedTracing, is_tracing

    if is_tracing():
        return proxy_for_type(typ, label)
    with ResumedTracing():
        return proxy_for_type(typ, label)


class SymEnd(BaseException):
    """enumerate mode reached a value that stays symbolic: prefix ends here."""


def nondet_sym(typ, label="s"):
    """A value of type `typ` (int, str, bool) that stays symbolic on the path."""
    fixed, v = _next_fixed()
    if fixed:
        pass
    elif MODE == "symbolic":
        v = _proxy(typ, label)
    else:
        raise SymEnd()
    TRACE.append(_Sym(v, getattr(typ, "__name__", "v")))
    return v


class _Sym(object):
    """wrapper marking a TRACE entry that is (possibly) symbolic"""

    __slots__ = ("v", "t")

    def __init__(self, v, t):
        self.v = v
        self.t = t


def concrete_trace():
    """TRACE with symbolic entries realised (call on a failing path only)."""
    out = []
    for v in TRACE:
        if v.__class__ is not _Sym:
            out.append(v)
        elif MODE != "symbolic":
            out.append(v.v)
        else:
            v = v.v
            from crosshair.core import realize
            from crosshair.tracers import ResumedTracing, is_tracing

            if is_tracing():
                out.append(realize(v))
            else:
                with ResumedTracing():
                    out.append(realize(v))
    return out


def shape_key():
    """Hashable key of the concrete part of TRACE (symbolic entries -> '?')."""
    return tuple("?" + v.t if v.__class__ is _Sym else v for v in TRACE)


class _Null(object):
    def __enter__(self):
        return self

    def __exit__(self, *a):
        return False


def concrete_region():
    """Fast mode (DESIGN 2): `with concrete_region():` runs code un-traced under CrossHair.
    Only valid when no symbolic value can flow into the region; choice points called from
    inside (nondet_bool in a hook) still fork through the solver."""
    if MODE != "symbolic":
        return _Null()
    from crosshair.tracers import NoTracing, is_tracing

    return NoTracing() if is_tracing() else _Null()


def concretize(x):
    """deep-realise a value that may contain CrossHair proxies (failing paths only)"""
    try:
        from crosshair.core import deep_realize
        from crosshair.tracers import ResumedTracing, is_tracing

        if is_tracing():
            return deep_realize(x)
        with ResumedTracing():
            return deep_realize(x)
    except Exception as exc:
        return "<unrealisable: %r>" % (exc,)
