"""Regenerates MANIFEST.json from the registry (run after adding a property)."""
import json
import os
import sys

V = os.path.dirname(os.path.dirname(os.path.abspath(__file__)))
sys.path.insert(0, V)
from vlib import registry  # noqa

ALL = [json.loads(l)["id"] for l in open(os.path.join(V, "properties.jsonl"))]
checks = []
for pid in ALL:
    if pid not in registry.PROPS:
        continue
    m = registry.PROPS[pid]
    checks.append({
        "property_id": pid,
        "quick_cmd": "bin/check %s --tier quick" % pid,
        "thorough_cmd": "bin/check %s --tier thorough" % pid,
        "evidence_file": "evidence/%s.json" % pid,
        "replay_cmd_template": "bin/check %s --replay {path}" % pid,
        "engine": m.get("engine", "E-CH"),
        "level_claimed": {
            "category": "other",
            "text": "Bounded symbolic execution of the real code, decided by z3: within the stated bounds (quick: %s; thorough: %s) every path of "
                    "harness + real anytree code is explored and the property's oracle holds on each, or a concrete counterexample is produced and "
                    "replayed on the real code. Not a proof: nothing is claimed outside the bounds." % (m["bounds"]["quick"], m["bounds"]["thorough"]),
            "design_ref": "DESIGN.md section 5 %s (plan), 9 (as built), 10 (mutation testing)" % pid,
        },
        "level_note": "Trusted: CPython, z3, CrossHair's search tree and int/bool/str proxies, the oracle code under /verif/harness and /verif/oracle. "
                      "Outside the claim: " + "; ".join(m["outside"]),
        "technique": m["technique"],
    })
na = [{"property_id": p, "reason": registry.NOT_APPLICABLE.get(p, "no check registered yet")} for p in ALL if p not in registry.PROPS]
man = {
    "version": 1,
    "setup_cmd": "bin/ensure_env",
    "hooks": {
        "guard": "ANYTREE_VERIF",
        "enable": "no source hooks are needed: checks import /repo/anytree as it is (pure Python) and observe through subclasses defined in the harness",
        "baseline_off_cmd": "cd /repo && /venv/bin/python -m pytest -ra -q -p no:cacheprovider --timeout=900 --continue-on-collection-errors",
        "source_commits": [],
        "add_only": True,
    },
    "engines": [
        {"name": "E-CH", "path": "vlib/", "serves_properties": [c["property_id"] for c in checks],
         "kind_free_text": "CrossHair 0.0.110 + z3 5.1.0: symbolic execution of the real anytree modules driven by harness bodies with nondet choice points"},
        {"name": "E-RE", "path": "smt/glob_regex.py", "serves_properties": ["C08"] if "C08" in registry.PROPS else [],
         "kind_free_text": "direct z3 regular-expression inclusion queries on the patterns compiled by the real Resolver"},
    ],
    "checks": checks,
    "not_applicable": na,
    "notes": "See DESIGN.md. Known findings (genuine defects not repairable without editing the unedited suite) are listed in known_findings.json; fix: commits in /repo are recorded there as fixed.",
}
json.dump(man, open(os.path.join(V, "MANIFEST.json"), "w"), indent=1)
print("claimed:", [c["property_id"] for c in checks], "not applicable:", [n["property_id"] for n in na])
