"""Obligations per property and tier, and the static part of the evidence text."""

CH = ("bounded symbolic execution of the real /repo/anytree code under CrossHair 0.0.110: every choice point of the harness "
      "(tree shape, call, arguments, flags asked by the real code) is a z3-decided fork in CrossHair's search tree, values marked "
      "symbolic stay z3 terms on the path; verdict per partition is CrossHair's CONFIRMED (= path tree exhausted, post-condition "
      "true on every path) or a counterexample that is replayed on the real code in a plain interpreter before it is reported")

PROPS = {}


def _p(pid, technique, explanation, rule, bq, bt, outside, assumptions):
    PROPS[pid] = dict(technique=technique, explanation=explanation, rule=rule, bounds=dict(quick=bq, thorough=bt),
                      outside=outside, assumptions=assumptions)


COMMON_ASSUME = [
    "CrossHair's search-tree exhaustion is sound (a fork is only closed when z3 proved it infeasible or both sides were explored)",
    "the oracle in /verif/harness and /verif/oracle states the property correctly",
    "CPython semantics; recursion depth and memory limits are not modelled",
]

_p("C05", "CrossHair/z3 bounded exhaustive symbolic execution of the five iterators against reference orders",
   CH + ". C05 is pure structure: all inputs are solver-picked cases (shape, start node, consumption count).",
   "one path = one (tree shape as parent vector, start node, partial-consumption count); non-trivial = subtree of the start node has >= 3 nodes; distinct = distinct decision tuples",
   "all ordered trees with <= 5 nodes, every start node, next() 0..2 times, for/break + second loop, zip(it, it); value-semantic class at N<=4", "all ordered trees with <= 7 nodes (value-semantic class <= 5), same",
   ["trees with more nodes than the bound", "recursion-depth limits on very deep trees", "concurrent mutation during iteration"],
   COMMON_ASSUME)

_p("C06", "CrossHair/z3 symbolic execution of each iterator with lazy stop/filter flags and an unbounded symbolic maxlevel",
   CH + ". stop(node)/filter_(node) answers are fresh solver Booleans created when the real code asks; maxlevel is None or a z3 Int with no bound.",
   "one path = (shape, start, maxlevel region, answers of stop/filter actually asked); non-trivial = >= 2 admitted nodes; distinct = distinct decision tuples",
   "trees with <= 4 nodes, every start node, every stop set and filter set, maxlevel None or ANY integer; additionally trees with 5 nodes from the root with every stop set, maxlevel in {None, -1..6} and no filter_; 5 iterators",
   "trees with <= 5 nodes (<= 6 for PreOrderIter from the root), same",
   ["impure predicates (results depending on call count)", "trees beyond the bound"],
   COMMON_ASSUME + ["stop/filter are pure per node (memoised per path)"])


_p("C04", "CrossHair/z3 bounded exhaustive symbolic execution of all navigation attributes and util helpers against definitions over the model",
   CH + ". Pure structure: forest shape and one optional preceding mutation are solver-picked cases; every node / pair / triple is checked inside the path.",
   "one path = (forest shape, optional mutation); inside it every node, ordered pair and triple is evaluated; non-trivial = forest with >= 3 nodes",
   "forests with <= 4 nodes: all values read, then one optional parent= (possibly vetoed by _pre_attach)/children=/del, then all values again against the current links; forests with 5 nodes without mutation; both mixin families; value-semantic class at N<=4",
   "one more node each",
   ["more nodes than the bound", "recursion limits on very deep trees", "commonancestors() of more than three nodes or none"], COMMON_ASSUME)

_p("C15", "CrossHair/z3 bounded exhaustive symbolic execution of Walker.walk for every ordered pair against the LCA definition",
   CH + ". Pure structure: forest shape and the ordered pair are solver-picked cases.",
   "one path = (forest shape, start, end); non-trivial = path with >= 2 edges",
   "forests with <= 5 nodes (one or more trees), every ordered pair, both families; value-semantic class and walk / parent= / same walk again at N<=4", "forests with <= 6 nodes (<= 5 for the two additions)",
   ["more nodes than the bound"], COMMON_ASSUME)

_p("C14", "CrossHair/z3 symbolic execution of the search functions with lazy filter/stop/attribute-presence flags, unbounded symbolic maxlevel and attribute values",
   CH + ". filter/stop answers and 'node has the attribute' are fresh solver Booleans asked when the real code asks (attribute presence through __getattr__); "
   "maxlevel, the searched value and the nodes' attribute values are unbounded z3 Ints (or None); mincount/maxcount are picked relative to the expected match count k "
   "(None, k-1, k, k+1), because the real code %d-formats them into the message which would realise a symbolic value.",
   "one path = (shape, start, maxlevel region, predicate/presence answers, value-equality outcomes, count offsets); non-trivial = >= 2 matches (findall/find) or >= 1 match among >= 2 inspected nodes (by_attr)",
   "trees with <= 3 nodes, every start node; 4 functions x {search, cachedsearch}; counts in {None, k-1, k, k+1}; attribute names 'name' and 'a.b'; cached call repeated after the tree changed",
   "trees with <= 4 nodes (5 for find/find_by_attr without counts), same",
   ["mincount/maxcount further than 1 from the match count (behave like the nearest tested value for comparison-based code)", "fastcache installed (cachedsearch then needs hashable arguments); here the pass-through decorator is what runs",
    "attribute values of other types than int/None"], COMMON_ASSUME + ["filter/stop/attribute lookups are pure per node"])

_p("C09", "CrossHair/z3 symbolic execution of RenderTree (rows for 8 styles, 4 childiters, unbounded symbolic maxlevel, lazy drop flags) plus table-driven text/repr obligations",
   CH + ". rows: maxlevel is None or an unbounded z3 Int; the filtering childiter's per-node answers are fresh solver Booleans; all eight styles are rendered inside each path. "
   "text/repr: attribute values come from a table (they go through str()/splitlines()/%r, which would realise symbolic strings) - the solver contributes shape/start/option coverage there.",
   "one path = (shape, start, childiter, maxlevel region, drop answers) for rows; (shape, start, value-table rotation) for text; non-trivial = >= 3 rendered rows (rows) / >= 2 rows (text)",
   "trees with <= 4 nodes, every start node; styles: 4 built-ins + custom widths 1,2,3 + style given as class; childiter list/reversed/sorted/filtering; maxlevel None or any int; 12 attribute value kinds",
   "trees with <= 5 nodes (rows), <= 5 (text), same options",
   ["symbolic (arbitrary) attribute strings", "custom styles whose three strings differ in length (excluded by the statement)", "deeper trees than the bound"], COMMON_ASSUME)

_p("C10", "CrossHair/z3 symbolic execution of DictExporter/DictImporter with fully symbolic attribute values and unbounded symbolic maxlevel",
   CH + ". Attribute values are unconstrained symbolic int/str/bool (or None) that the code must pass through (checked by identity, then equality); maxlevel is None or any z3 Int; "
   "six combinations of attriter x childiter x dictcls (each option value at least twice) are exported inside each path; the filtering childiter's answers are lazy solver Booleans.",
   "one path = (shape, start, attribute layout, maxlevel region, drop answers) for export; (shape, layout, nodecls, explicit-empty flag) for import; non-trivial = >= 3 nodes",
   "trees with <= 4 nodes (AnyNode) / <= 3 (Node, user class), every start node, 0-2 attributes per node from a 7-key pool (incl. a private key and the property names depth/size), values symbolic; nodecls AnyNode/Node/user NodeMixin class/user class with container semantics (falsy)",
   "trees with <= 5 nodes, same",
   ["attribute keys 'parent'/'children' and non-identifier keys (excluded by the statement)", "LightNodeMixin classes (no __dict__)", "values of container types (passed through untouched like any object)"],
   COMMON_ASSUME)

_p("C11", "CrossHair/z3 bounded exhaustive symbolic execution of JsonExporter/JsonImporter over shapes, start nodes, maxlevel and a value table, all json option sets in-path",
   CH + ". Weaker than the other claims and said so: json is a stdlib/C boundary where symbolic strings give no verdict, so attribute values are table-selected "
   "(26 values incl. control characters, U+2028/U+2029/U+0085, non-BMP, big ints, float edge cases, nested containers); the solver contributes exhaustive shape/start/maxlevel/value-rotation coverage; "
   "ten json option sets are exercised inside each path.",
   "one path = (shape, start, value rotation, maxlevel); non-trivial = >= 2 nodes",
   "trees with <= 3 nodes, every start node, maxlevel None/0..3, 26 value rotations, 10 option sets", "trees with <= 4 nodes, same",
   ["NaN/Infinity (not JSON)", "non-string keys, tuples (become lists)", "arbitrary (symbolic) strings", "json options beyond the ten sets (e.g. cls=, default=)"], COMMON_ASSUME + ["DictExporter is correct (C10)"])

GR_OUT = ["to_picture (needs graphviz)", "names beyond the 11-entry pool for the structure obligations (escaping is checked separately on symbolic strings)",
          "negative maxlevel (the statement quantifies over maxlevel >= 0)", "trees beyond the bound"]

_p("C12", "CrossHair/z3 symbolic execution of DotExporter/UniqueDotExporter/RenderTreeGraph with lazy stop/filter flags and unbounded symbolic maxlevel; emitted lines parsed back",
   CH + ". stop/filter answers are lazy solver Booleans, maxlevel None or any z3 Int >= 0; lines are parsed (quoted identifiers with backslash escapes) and compared with the declared "
   "nodes / links of the statement. Escaping is checked on fully symbolic strings of length <= 2 (every code point) and on all strings over a 4-letter alphabet up to length 3. "
   "Known finding F6 (edge to a stopped, undeclared child; pinned by tests/refdata) is recognised only by its exact extra-edge set.",
   "one path = (shape, start, name rotation, maxlevel region, stop/filter answers, default|custom functions, indent); non-trivial = >= 2 declared nodes",
   "trees with <= 3 nodes, every start node, 6 variants of (name rotation, default|custom name/attr/edge functions, options, indent 0-3, graph/name); second iteration after the exporter was widened and the tree grew; value-semantic node class (UniqueDotExporter)",
   "trees with <= 4 nodes, same", GR_OUT, COMMON_ASSUME + ["stop/filter are pure per node"])

_p("C13", "CrossHair/z3 symbolic execution of MermaidExporter with lazy stop/filter flags and unbounded symbolic maxlevel; emitted lines parsed back",
   CH + ". As C12; identifiers are read off the node lines and must be distinct, used consistently in edges and stable across iterations.",
   "one path = (shape, start, name rotation, maxlevel region, stop/filter answers, default|custom functions, indent); non-trivial = >= 2 declared nodes",
   "trees with <= 3 nodes, every start node, 6 variants of (name rotation, default|custom functions, options, indent); widened second iteration; value-semantic node class", "trees with <= 4 nodes, same", GR_OUT, COMMON_ASSUME + ["stop/filter are pure per node"])

RES_OUT = ["characters whose upper/lower case mapping is not a one-to-one pair (sharp s, dotless i, ...): 'case-insensitively' is not precise enough there",
           "names outside the 22-entry pool for the tree-level obligations", "trees / paths beyond the bound"]

_p("C07", "CrossHair/z3 bounded exhaustive symbolic execution of Resolver.get against an independent path interpreter; round trips through Walker",
   CH + ". Tree shape, name assignment (rotations of a 22-name pool with regex/wildcard/separator characters, other-case twins, a non-string name) and the path's components "
   "are solver-picked; every start node, leading-separator form (relative, absolute, absolute without root name, absolute with other-case root), trailing separator, ignorecase and relax "
   "combination is evaluated inside the path.",
   "one path = (shape, name rotation, component sequence); inside it 16 x n x 4 get() calls are judged; non-trivial = every path",
   "trees with <= 3 nodes, 6 name rotations, paths of <= 3 components over {each node's name, an other-case name, '..', '.', '', unknown}; separator '.'; value-semantic node class (<= 2 components); round trip: trees <= 4 nodes, 4 separator classes, pathattr name/id, 22 rotations",
   "trees with <= 4 nodes, all 22 rotations x 2 strides, paths of <= 3 components (<= 4 for trees with <= 3 nodes)", RES_OUT, COMMON_ASSUME)

_p("C08", "z3 regular-expression inclusion queries on the patterns compiled by the real Resolver (names of any length) + CrossHair/z3 bounded execution of glob against a set-semantics interpreter",
   "E-RE: for every pattern over a 19-character alphabet up to the length bound and both ignorecase values, the real Resolver compiles the pattern; its sre parse tree is translated to a z3 regex "
   "and z3 decides both inclusions against the wildcard semantics of the statement for ALL names (unsat = equal). E-CH: " + CH + ". glob on picked trees/names/patterns vs an independent interpreter: "
   "relaxed set, pre-order list, duplicates rule, strict-mode dead ends, agreement with get, and cache transparency (same call repeated after calls of a resolver with the other ignorecase flag and at cache fill level _MAXCACHE-1).",
   "E-RE: one obligation = one (pattern, ignorecase) pair, two unsat queries; E-CH: one path = (shape, name rotation, component sequence, cache prelude), inside it 6 x n x 2 (x up to 5) glob calls; non-trivial = every path",
   "E-RE: patterns of length <= 4 over 19 characters; E-CH: trees <= 3 nodes, 6 name rotations, <= 2 components over names/'..'/'.'/''/unknown/'*'/'a*'/'?'/'*b'/'**'/'???'; value-semantic node class (2 rotations)",
   "E-RE: patterns of length <= 5; E-CH: trees <= 4 nodes, all rotations, <= 3 components", RES_OUT + ["E-RE: case folding only for the alphabet's letters"], COMMON_ASSUME + ["sre parse tree -> z3 regex translation (validated against re on every run)"])
PROPS["C08"]["engine"] = "E-RE + E-CH"

_p("C17", "CrossHair/z3 bounded exhaustive lock-step execution of a plain node class and adversarial classes whose special methods record any invocation",
   CH + ". The adversarial class overrides __eq__/__ne__/ordering/__hash__/__bool__/__len__/__iter__/__contains__/__getitem__; every override first records the call. "
   "Since ANY invocation is already a violation, one all-overriding class covers every subset of overridden methods for the 'never invoked' clause; three behaviours "
   "(always-equal+falsy+empty, never-equal, raising) and an unhashable class cover the 'same result' clause. Forest, structural call and behaviour are solver-picked; "
   "after the call ~60 read-only queries per node (navigation, util, 5 iterators with stop/filter/maxlevel, search, Walker, Resolver get/glob incl. '**', RenderTree, Dict/Dot/UniqueDot/Mermaid exporters) run on both classes.",
   "one path = (forest, call, arguments, behaviour); non-trivial = every path that reaches the query battery",
   "forests with 4 nodes and parent=/del/children= with sequences <= 1, forests <= 3 nodes with sequences <= 2 (non-node object included), NodeMixin family; <= 3 nodes LightNodeMixin family",
   "forests with <= 5 nodes (children sequences <= 2), both families <= 4 with sequences <= 3",
   ["special methods other than the twelve listed", "JsonExporter/importers (no node comparison possible there)", "nodes beyond the bound"], COMMON_ASSUME + ["the harness itself touches nodes only via `is`"])

_p("C19", "CrossHair/z3 bounded exhaustive symbolic execution of pickle (all protocols) and deepcopy over shapes, class mixes, entry nodes",
   CH + ". Structure-only claim and said so: pickle/copy are C code and run concretely on each path; the solver's part is exhaustive coverage of shape x class x entry x protocol x symlink targets; "
   "inside each path every single parent= mutation of the copy and of the original is checked for independence.",
   "one path = (shape, class, entry node, protocol|deepcopy, symlink targets); non-trivial = >= 3 nodes",
   "trees with <= 4 nodes; classes Node, AnyNode, user NodeMixin (with attributes named _parent/_children), user NodeMixin with __len__ (falsy when empty), user NodeMixin with value __eq__, LightNodeMixin with __slots__, a two-level __slots__ hierarchy, Node+SymlinkNode mixes (targets: any earlier node, links to links, a node of another tree); protocols 0-5 (2-5 for slots) and deepcopy",
   "trees with <= 5 nodes, same",
   ["trees deeper than the recursion limit of pickle/deepcopy", "classes with custom __reduce__/__getstate__ of their own"], COMMON_ASSUME)

_p("C20", "CrossHair/z3 symbolic execution of SymlinkNode attribute forwarding (symbolic values) and structural independence on mixed trees",
   CH + ". Universe: ordinary nodes and links (to earlier nodes: same tree, other tree, link to link), forest shape solver-picked; written values are unconstrained symbolic ints (passed through, compared by identity first).",
   "forward: one path = (universe, forest, attribute name, constructor-kwargs flag), every node as writer and every node as reader inside; independent: + one structural call; interleave: two steps (write | parent=)",
   "3 nodes (kinds: node0 ordinary and falsy, node1 ordinary|link, node2 ordinary|link to 0|link to 1) placed through the constructors' parent=, all forests, attribute names foo/name/x1/_p/__tag__; one structural call; 2-step interleavings of write / parent= / re-target",
   "4 nodes, 3-step interleavings",
   ["attribute names that are class attributes of the link's class (separator, path, is_leaf ...: the link's own by Python's lookup rules)", "attribute deletion", "SymlinkNodeMixin subclasses other than SymlinkNode"], COMMON_ASSUME)

MUT_OUT = ["more nodes than the bound", "hooks that mutate the tree in other ways than the one re-entrant pattern checked (a _pre_attach hook detaching a child of the new parent)", "concurrent mutation",
           "iterables with side effects while being consumed by children="]

_p("C01", "CrossHair/z3: one symbolic call with a symbolic hook-fault schedule from every valid forest (inductive step for the C01 invariant)",
   CH + ". Inductive step: from EVERY valid forest on N nodes (all shapes x attribute-representation variants), ONE call with arbitrary arguments and an "
   "arbitrary fault schedule (any hook invocation, pre or post, may raise; transient <= F faults or persistent from the first one) preserves the invariant; "
   "since every public mutation is one of the three calls this covers histories of any length over N nodes. Run for ANYTREE_ASSERTIONS=0 and 1 (separate imports).",
   "one path = (forest, variant, call, arguments, answers of the fault flags asked by the hooks that fired); non-trivial = a hook raised or the call was refused",
   "N<=3 nodes, children sequences up to length 3 (+a non-node object, +None, +non-iterable), <=1 transient fault on any hook or persistent, NodeMixin- and LightNodeMixin-based classes, assertions off and on; N=4 without faults for value-semantic (all-equal, falsy) classes; N<=3 forests mixing both mixin flavours",
   "additionally N=4 with <=1 fault or persistent; N<=3 with <=2 faults; Node/AnyNode/SymlinkNode subclasses; TreeError-derived veto class; mixed flavours at N<=4",
   MUT_OUT, COMMON_ASSUME + ["hooks only raise (Veto) or return; the fault flags are the only nondeterminism"])

_p("C02", "CrossHair/z3 bounded exhaustive symbolic execution of parent=/children=/del against a functional oracle of C02's text",
   CH + ". No faults; post-state and refusal class compared with an oracle transcribed from the statement (not from the code); constructors compared with the assignments.",
   "one path = (forest, variant, call, arguments); non-trivial = successful call that changes the forest",
   "N<=3 nodes with children sequences up to length 3, N=4 with sequences up to length 2; both mixin families; value-semantic classes at N<=4; non-node object, None and non-iterable arguments; list and iterator arguments; 2-call histories (N<=3); constructors of Node/AnyNode/SymlinkNode incl. falsy parents",
   "N<=3 L<=3, N=4 with sequences up to length 4, N=5 with sequences up to length 2; 2-call histories with sequences <=2, 3-call histories at N<=2",
   MUT_OUT, COMMON_ASSUME)

_p("C03", "CrossHair/z3: one symbolic call with symbolic pre-hook vetoes; post-state must equal pre-state whenever the call raises",
   CH + ". Faults on the four _pre_* hooks only (transient or persistent) and all invalid arguments. Known findings F1/F2/F3/F9 are recognised only by their "
   "trigger family AND the exact outcome the documented protocol yields (operational model); any other deviation is a violation.",
   "one path = (forest, variant, call, arguments, fault answers); non-trivial = the call raised",
   "N<=3, sequences up to length 3, <=1 transient pre-hook veto or persistent, both families; value-semantic classes (sequences <=2)",
   "additionally N=4 with <=1 veto or persistent; N<=3 with <=2 vetoes; TreeError-derived veto class",
   MUT_OUT, COMMON_ASSUME + ["the operational model in oracle/forest.py is the documented protocol (validated: it must reproduce the real hook log exactly in C16)"])

_p("C16", "CrossHair/z3: hook log of one symbolic call (with at most one symbolic post-hook fault) == protocol model, incl. observed states",
   CH + ". Each hook records (name, node, argument, parent seen, membership/position in the parent's children seen); compared with the operational model of C16's text.",
   "one path = (forest, variant, call, arguments, fault answers); non-trivial = at least one hook fired",
   "N<=3, sequences up to length 3, no fault or one post-hook fault (parent= only), both families; value-semantic classes without faults",
   "N<=4, same; plus <=1 fault on any hook",
   MUT_OUT, COMMON_ASSUME)

_p("C18", "CrossHair/z3 lock-step execution of a NodeMixin class and a LightNodeMixin(__slots__) class on the same symbolic forest, call and fault schedule",
   CH + ". Outcome class, post-state, hook log and ~40 read-only queries per node (navigation, iterators, Walker, Resolver, RenderTree) compared index-mapped.",
   "one path = (forest, variant, call, arguments, fault answers); non-trivial = at least one hook fired",
   "N<=3, sequences up to length 3, <=1 fault (any hook) or persistent; fault-free with list and one-shot iterator arguments; value-semantic classes",
   "N<=4, same",
   MUT_OUT + ["non-node arguments (excluded by the statement)"], COMMON_ASSUME)


def _mut(name, body, cfg, assertions=0, depth=4, **kw):
    return dict(name=name, module="harness.mutate", body=body, cfg=cfg, assertions=assertions, depth=depth,
                picked="n, parent vector (forest), op, receiver, new parent / children sequence", symbolic="touched variant, fault flags, regime", **kw)


def obligations(prop, tier):
    q = tier == "quick"
    out = []
    if prop == "C05":
        out.append(dict(name="order_once_sameset_assertions_on", module="harness.iters", body="c05_body", cfg={"N": 4 if q else 6}, assertions=1, depth=3, bounds="N<=%d with ANYTREE_ASSERTIONS=1" % (4 if q else 6),
                        picked="n, parent vector, start, consume", symbolic="-"))
        out.append(dict(name="order_once_sameset_listnode", module="harness.iters", body="c05_body", cfg={"N": 4 if q else 5, "cls": "list"}, depth=3, bounds="N<=%d, node class that is also a list subclass" % (4 if q else 5),
                        picked="n, parent vector, start, consume", symbolic="-"))
        out.append(dict(name="order_once_sameset_eq", module="harness.iters", body="c05_body", cfg={"N": 4 if q else 5, "cls": "eq"}, depth=3, bounds="N<=%d, node class whose instances all compare equal and are falsy" % (4 if q else 5),
                        picked="n, parent vector, start, consume", symbolic="-"))
        out.append(dict(name="order_once_sameset", module="harness.iters", body="c05_body", cfg={"N": 5 if q else 7}, depth=3 if q else 5,
                        bounds="N<=%d" % (5 if q else 7), picked="n, parent vector, start, consume", symbolic="-"))
    elif prop == "C06":
        for it in ("pre", "post", "level", "group", "zigzag"):
            out.append(dict(name="restrict_valsem_" + it, module="harness.iters", body="c06_body", cfg={"iter": it, "N": 3 if q else 4, "cls": "eq"}, depth=4,
                            bounds="N<=%d, node class with value/container semantics (all-equal, falsy)" % (3 if q else 4), picked="n, parent vector, start", symbolic="maxlevel (unbounded int), stop/filter answers"))
            if q:
                out.append(dict(name="restrict5root_" + it, module="harness.iters", body="c06_body", cfg={"iter": it, "N": 5, "exactN": True, "starts": False, "concrete_maxlevel": True, "no_filter": True}, depth=4,
                                bounds="N=5, start at the root, maxlevel in {None,-1..6}, no filter_", picked="parent vector, maxlevel", symbolic="stop answers"))
            out.append(dict(name="restrict_" + it, module="harness.iters", body="c06_body", cfg={"iter": it, "N": 4 if q else 5}, depth=4 if q else 5,
                            bounds="N<=%d" % (4 if q else 5), picked="n, parent vector, start", symbolic="maxlevel (unbounded int), stop/filter answers"))
    elif prop == "C01":
        for cls in (("mixin", "light") if q else ("mixin", "light", "node", "anynode", "symlink")):
            for asrt in (0, 1):
                out.append(_mut("step_%s_a%d" % (cls, asrt), "c01_body", {"cls": cls, "N": 3, "L": 3, "faults": "all", "F": 1}, asrt, bounds="N<=3 F<=1|persistent"))
        out.append(_mut("step_symlink_attrveto_a1", "c01_body", {"cls": "symlink", "N": 3, "L": 2, "faults": "all", "F": 1, "veto": "attr"}, 1, depth=5,
                        bounds="N<=3, SymlinkNode subclass, vetoes derived from AttributeError, assertions on"))
        out.append(_mut("step_mixed_flavours", "c01_body", {"cls": "mixed", "N": 3 if q else 4, "L": 2, "faults": "all", "F": 1}, 0, depth=5,
                        bounds="N<=%d, forest mixing NodeMixin- and LightNodeMixin-based nodes, <=1 fault|persistent" % (3 if q else 4)))
        for cls in ("mixin_eq", "light_eq"):
            out.append(_mut("step4_%s" % cls, "c01_body", {"cls": cls, "N": 4, "exactN": True, "L": 1, "faults": "none"}, 1, depth=5,
                            bounds="N=4, L<=1, no faults, node class whose instances all compare equal"))
        if not q:
            for cls in ("mixin", "light"):
                out.append(_mut("step4_%s" % cls, "c01_body", {"cls": cls, "N": 4, "exactN": True, "L": 3, "faults": "all", "F": 1}, 1, depth=6, bounds="N=4 F<=1|persistent"))
                out.append(_mut("step3f2_%s" % cls, "c01_body", {"cls": cls, "N": 3, "L": 3, "faults": "all", "F": 2}, 1, depth=5, bounds="N<=3 F<=2"))
                out.append(_mut("step3tree_%s" % cls, "c01_body", {"cls": cls, "N": 3, "L": 3, "faults": "all", "F": 1, "veto": "tree"}, 0, bounds="N<=3 F<=1 TreeError-veto"))
    elif prop == "C02":
        for cls in ("mixin", "light"):
            out.append(_mut("effect3_%s" % cls, "c02_body", {"cls": cls, "N": 3, "L": 3}, depth=4, bounds="N<=3 L<=3"))
            out.append(_mut("effect3_%s_eq" % cls, "c02_body", {"cls": cls + "_eq", "N": 3, "L": 2}, depth=4, bounds="N<=3 L<=2, node class whose instances all compare equal"))
            out.append(_mut("effect4_%s_eq" % cls, "c02_body", {"cls": cls + "_eq", "N": 4, "exactN": True, "L": 1 if q else 2}, depth=5, bounds="N=4 L<=%d, all-equal node class" % (1 if q else 2)))
            if q:
                out.append(_mut("effect4_%s" % cls, "c02_body", {"cls": cls, "N": 4, "exactN": True, "L": 2}, depth=5, bounds="N=4 L<=2"))
            else:
                out.append(_mut("effect4_%s" % cls, "c02_body", {"cls": cls, "N": 4, "exactN": True, "L": 4}, depth=6, bounds="N=4 L<=4"))
                out.append(_mut("effect5_%s" % cls, "c02_body", {"cls": cls, "N": 5, "exactN": True, "L": 2}, depth=6, bounds="N=5 L<=2"))
        for cls in ("mixin", "light"):
            if q:
                out.append(_mut("history_%s" % cls, "hist_body", {"cls": cls, "N": 3, "L": 1, "K": 2}, depth=5, bounds="N<=3, 2 successive calls, sequences <= 1"))
            else:
                out.append(_mut("history2_%s" % cls, "hist_body", {"cls": cls, "N": 3, "L": 2, "K": 2}, depth=6, bounds="N<=3, 2 successive calls, sequences <= 2"))
                out.append(_mut("history3_%s" % cls, "hist_body", {"cls": cls, "N": 2, "L": 1, "K": 3}, depth=5, bounds="N<=2, 3 successive calls"))
        for cls in ("node", "anynode", "symlink"):
            out.append(_mut("ctor_%s" % cls, "ctor_body", {"cls": cls, "N": 3 if q else 4, "L": 2}, depth=4, bounds="N<=%d existing nodes, children sequences <= 2" % (3 if q else 4)))
        out.append(_mut("reentrant_pre_attach", "reentrant_body", {"N": 3 if q else 4}, depth=4, bounds="N<=%d, parent= with a _pre_attach hook that detaches the new parent's first child, both mixins" % (3 if q else 4)))
        out.append(_mut("ctor_node_valsem", "ctor_body", {"cls": "node", "valsem": True, "N": 3 if q else 4, "L": 1}, depth=4,
                        bounds="existing nodes are falsy/all-equal Node subclasses; parent may also be the non-node value 0"))
    elif prop == "C03":
        for cls in ("mixin_eq", "light_eq"):
            out.append(_mut("atomic_%s" % cls, "c03_body", {"cls": cls, "N": 3, "L": 2 if q else 3, "faults": "pre", "F": 1}, bounds="N<=3 F<=1|persistent, all-equal/falsy node class"))
        for cls in ("mixin", "light"):
            out.append(_mut("atomic_%s" % cls, "c03_body", {"cls": cls, "N": 3, "L": 3, "faults": "pre", "F": 1}, bounds="N<=3 F<=1|persistent"))
            if not q:
                out.append(_mut("atomic4_%s" % cls, "c03_body", {"cls": cls, "N": 4, "exactN": True, "L": 3, "faults": "pre", "F": 1}, depth=6, bounds="N=4 F<=1|persistent"))
                out.append(_mut("atomic3f2_%s" % cls, "c03_body", {"cls": cls, "N": 3, "L": 3, "faults": "pre", "F": 2}, depth=5, bounds="N<=3 F<=2"))
                out.append(_mut("atomic3tree_%s" % cls, "c03_body", {"cls": cls, "N": 3, "L": 3, "faults": "pre", "F": 1, "veto": "tree"}, bounds="N<=3 TreeError-veto"))
                out.append(_mut("atomic3attr_%s" % cls, "c03_body", {"cls": cls, "N": 3, "L": 3, "faults": "pre", "F": 1, "veto": "attr"}, bounds="N<=3 AttributeError-veto"))
    elif prop == "C16":
        out.append(_mut("reentrant_pre_attach", "reentrant_body", {"N": 3 if q else 4}, depth=4, bounds="N<=%d, _pre_attach hook that detaches the new parent's first child: the step then still ends with the node as LAST child of new" % (3 if q else 4)))
        for cls in ("mixin_eq", "light_eq"):
            out.append(_mut("hooks_%s" % cls, "c16_body", {"cls": cls, "N": 3, "L": 2, "faults": "none"}, depth=4, bounds="N<=3, no faults, all-equal/falsy node class"))
        for cls in ("mixin", "light"):
            N = 3 if q else 4
            out.append(_mut("hooks_%s" % cls, "c16_body", {"cls": cls, "N": N, "L": 3, "faults": "post", "F": 1, "persistent": False}, depth=4 if q else 6, bounds="N<=%d, <=1 post-hook fault" % N))
            if not q:
                out.append(_mut("hooks_anyfault_%s" % cls, "c16_body", {"cls": cls, "N": 3, "L": 3, "faults": "all", "F": 1}, depth=5, bounds="N<=3, <=1 fault any hook|persistent"))
    elif prop == "C18":
        N = 3 if q else 4
        out.append(_mut("lockstep", "c18_body", {"N": N, "L": 3, "faults": "all", "F": 1}, depth=5 if q else 7, bounds="N<=%d F<=1|persistent" % N))
        out.append(_mut("reentrant_pre_attach", "reentrant_body", {"N": 3 if q else 4}, depth=4, bounds="N<=%d, tree-mutating _pre_attach hook, both mixins must agree" % (3 if q else 4)))
        out.append(_mut("lockstep_nofault_iterables", "c18_body", {"N": 3, "L": 3, "faults": "none"}, depth=5, bounds="N<=3, no faults, list and one-shot iterator arguments"))
        out.append(_mut("lockstep_valuesem4", "c18_body", {"N": 4, "exactN": True, "L": 1, "faults": "none", "mixcls": "mixin_eq", "lightcls": "light_eq"}, depth=6,
                        bounds="N=4, sequences <= 1, no faults, value/container-semantic classes"))
        out.append(_mut("lockstep_valuesem", "c18_body", {"N": N, "L": 2, "faults": "none", "mixcls": "mixin_eq", "lightcls": "light_eq"}, depth=5,
                        bounds="N<=%d, no faults, node classes whose instances all compare equal, are empty and falsy" % N))
    elif prop == "C04":
        out.append(dict(name="nav7_mixin", module="harness.navigate", body="c04_body", cfg={"cls": "mixin", "N": 7, "move": False, "single_tree7": True}, depth=6, bounds="N<=7 (single trees), no mutation",
                        picked="n, parent vector", symbolic="-"))
        out.append(dict(name="nav_light_eq", module="harness.navigate", body="c04_body", cfg={"cls": "light_eq", "N": 4 if q else 5, "move": False}, depth=4, bounds="N<=%d, LightNodeMixin class with value/container semantics" % (4 if q else 5),
                        picked="n, parent vector (forest)", symbolic="-"))
        out.append(dict(name="nav_mixin_eq", module="harness.navigate", body="c04_body", cfg={"cls": "mixin_eq", "N": 4 if q else 5, "move": False}, depth=4, bounds="N<=%d, all-equal node class" % (4 if q else 5),
                        picked="n, parent vector (forest)", symbolic="-"))
        for cls in ("mixin", "light"):
            N = 4 if q else 5
            out.append(dict(name="nav_move_%s" % cls, module="harness.navigate", body="c04_body", cfg={"cls": cls, "N": N, "move": True}, depth=4 if q else 5,
                            bounds="N<=%d with optional mutation" % N, picked="n, parent vector (forest), mutation", symbolic="-"))
            out.append(dict(name="nav_%s" % cls, module="harness.navigate", body="c04_body", cfg={"cls": cls, "N": N + 1, "move": False}, depth=4 if q else 5,
                            bounds="N<=%d" % (N + 1), picked="n, parent vector (forest)", symbolic="-"))
    elif prop == "C15":
        out.append(dict(name="walk_tree6", module="harness.navigate", body="c15_body", cfg={"cls": "mixin", "N": 6, "exactN": True, "single_tree": True}, depth=5, bounds="single trees with exactly 6 nodes",
                        picked="parent vector, start, end", symbolic="-"))
        out.append(dict(name="walk_after_move", module="harness.navigate", body="c15_move_body", cfg={"cls": "mixin", "N": 4 if q else 5}, depth=4, bounds="N<=%d: walk, one parent= anywhere, same walk again" % (4 if q else 5),
                        picked="n, parent vector (forest), start, end, moved node, new parent", symbolic="-"))
        out.append(dict(name="walk_mixin_eq", module="harness.navigate", body="c15_body", cfg={"cls": "mixin_eq", "N": 4 if q else 5}, depth=4, bounds="N<=%d, all-equal node class" % (4 if q else 5),
                        picked="n, parent vector (forest), start, end", symbolic="-"))
        for cls in ("mixin", "light"):
            N = 5 if q else 6
            out.append(dict(name="walk_%s" % cls, module="harness.navigate", body="c15_body", cfg={"cls": cls, "N": N}, depth=4 if q else 5,
                            bounds="N<=%d" % N, picked="n, parent vector (forest), start, end", symbolic="-"))
    elif prop == "C14":
        for fn, body in (("find", "findall_body"), ("find_by_attr", "by_attr_body")):
            out.append(dict(name="valsem_" + fn, module="harness.searching", body=body, cfg={"fn": fn, "N": 3, "cached": False, "valsem": True}, depth=6,
                            bounds="N<=3, node class with value/container semantics (falsy)", picked="n, parent vector, start", symbolic="maxlevel, value, presence/stop/filter flags"))
        N = 3 if q else 4
        for cached in (False, True):
            for fn, body in (("findall", "findall_body"), ("find", "findall_body"), ("findall_by_attr", "by_attr_body"), ("find_by_attr", "by_attr_body")):
                out.append(dict(name=("cached_" if cached else "") + fn, module="harness.searching", body=body, cfg={"fn": fn, "N": N, "cached": cached}, depth=6 if q else 7,
                                bounds="N<=%d" % N, picked="n, parent vector, start, attribute name, count offsets", symbolic="maxlevel, value, node values (unbounded ints), presence/stop/filter flags"))
    elif prop == "C09":
        N = 4 if q else 5
        out.append(dict(name="rows", module="harness.render", body="rows_body", cfg={"N": N}, depth=5 if q else 6, bounds="N<=%d" % N,
                        picked="n, parent vector, start, childiter; styles looped in-path", symbolic="maxlevel (unbounded int), drop flags of the filtering childiter"))
        out.append(dict(name="text", module="harness.render", body="text_body", cfg={"N": N}, depth=4, bounds="N<=%d" % N,
                        picked="n, parent vector, start, value-table rotation", symbolic="-"))
        out.append(dict(name="reprs", module="harness.render", body="repr_body", cfg={"N": 3 if q else 4}, depth=4, bounds="N<=%d" % (3 if q else 4),
                        picked="n, parent vector, class, attribute keys/values from tables", symbolic="-"))
    elif prop == "C10":
        N = 4 if q else 5
        for cls in ("anynode", "node", "user"):
            out.append(dict(name="export_" + cls, module="harness.dictio", body="export_body", cfg={"N": N if cls == "anynode" else N - 1, "cls": cls}, depth=5, bounds="N<=%d" % (N if cls == "anynode" else N - 1),
                            picked="n, parent vector, start, attribute layout; options looped in-path", symbolic="attribute values (int/str/bool), maxlevel, drop flags"))
        out.append(dict(name="import_roundtrip", module="harness.dictio", body="import_body", cfg={"N": N}, depth=5, bounds="N<=%d" % N,
                        picked="nodecls, n, parent vector, attribute layout, explicit empty children", symbolic="attribute values"))
    elif prop == "C11":
        N = 3 if q else 4
        out.append(dict(name="json_text_roundtrip", module="harness.dictio", body="json_body", cfg={"N": N}, depth=4 if q else 5, bounds="N<=%d" % N,
                        picked="n, parent vector, start, value rotation, maxlevel; option sets looped in-path", symbolic="-"))
    elif prop in ("C12", "C13"):
        N = 3 if q else 4
        sym = "maxlevel (unbounded int >= 0), stop/filter answers"
        pk = "n, parent vector, start, name rotation, custom functions, indent"
        if prop == "C12":
            for ex in ("dot", "unique"):
                out.append(dict(name="structure_" + ex, module="harness.graphs", body="dot_body", cfg={"N": N, "exporter": ex}, depth=5 if q else 6, bounds="N<=%d" % N, picked=pk, symbolic=sym))
            out.append(dict(name="structure_unique_valsem", module="harness.graphs", body="dot_body", cfg={"N": 3, "exporter": "unique", "valsem": True}, depth=5, bounds="N<=3, all-equal/falsy node class", picked=pk, symbolic=sym))
            out.append(dict(name="escaping", module="harness.graphs", body="esc_body", cfg={}, depth=2, bounds="symbolic str len<=2; alphabet strings len<=3", picked="alphabet strings", symbolic="name, other name (str, len<=2)", timeout=600))
            out.append(dict(name="to_dotfile", module="harness.graphs", body="files_body", cfg={"N": 3}, depth=2, bounds="N<=3", picked="n, parent vector, name rotation", symbolic="-"))
            out.append(dict(name="to_dotfile_unique", module="harness.graphs", body="files_body", cfg={"N": 3, "unique": True}, depth=2, bounds="N<=3", picked="n, parent vector, name rotation", symbolic="-"))
        else:
            out.append(dict(name="structure_mermaid", module="harness.graphs", body="mermaid_body", cfg={"N": N, "exporter": "mermaid"}, depth=5 if q else 6, bounds="N<=%d" % N, picked=pk, symbolic=sym))
            out.append(dict(name="structure_mermaid_valsem", module="harness.graphs", body="mermaid_body", cfg={"N": 3, "exporter": "mermaid", "valsem": True}, depth=5, bounds="N<=3, all-equal/falsy node class", picked=pk, symbolic=sym))
            out.append(dict(name="escaping", module="harness.graphs", body="esc_body", cfg={"mermaid": True}, depth=2, bounds="symbolic str len<=2; alphabet strings len<=3", picked="alphabet strings", symbolic="name, other name (str, len<=2)", timeout=600))
            out.append(dict(name="to_file", module="harness.graphs", body="files_body", cfg={"N": 3, "mermaid": True}, depth=2, bounds="N<=3", picked="n, parent vector, name rotation", symbolic="-"))
    elif prop == "C07":
        if q:
            out.append(dict(name="get_semantics", module="harness.resolve", body="get_body", cfg={"N": 3, "L": 3, "rotations": 6}, depth=4, bounds="N<=3 L<=3 6 rotations", picked="n, parent vector, name rotation, components", symbolic="-"))
            out.append(dict(name="get_semantics_dot", module="harness.resolve", body="get_body", cfg={"N": 3, "L": 2, "rotations": 6, "sep": "."}, depth=4, bounds="N<=3 L<=2, separator '.'", picked="same", symbolic="-"))
            out.append(dict(name="get_semantics_valsem", module="harness.resolve", body="get_body", cfg={"N": 3, "L": 2, "rotations": 3, "valsem": True}, depth=4, bounds="N<=3 L<=2 3 rotations, all-equal/falsy node class", picked="same", symbolic="-"))
            out.append(dict(name="get_semantics_missing_attr", module="harness.resolve", body="get_body", cfg={"N": 3, "L": 2, "rotations": 3, "missing_attr": True}, depth=4, bounds="N<=3 L<=2 3 rotations, one node lacks the path attribute", picked="same", symbolic="-"))
            out.append(dict(name="roundtrip", module="harness.resolve", body="roundtrip_body", cfg={"N": 4}, depth=4, bounds="N<=4, 4 separators, 2 path attributes, 22 rotations", picked="separator, pathattr, n, parent vector, name rotation", symbolic="-"))
        else:
            out.append(dict(name="get_semantics_valsem", module="harness.resolve", body="get_body", cfg={"N": 3, "L": 3, "rotations": 6, "valsem": True}, depth=4, bounds="N<=3 L<=3 6 rotations, all-equal/falsy node class", picked="same", symbolic="-"))
            out.append(dict(name="get_semantics4", module="harness.resolve", body="get_body", cfg={"N": 4, "L": 3, "strides": 2}, depth=5, bounds="N<=4 L<=3 all rotations", picked="n, parent vector, name rotation, stride, components", symbolic="-"))
            out.append(dict(name="get_semantics3", module="harness.resolve", body="get_body", cfg={"N": 3, "L": 4, "rotations": 8}, depth=5, bounds="N<=3 L<=4 8 rotations", picked="same", symbolic="-"))
            for sp in (".", "|", "::"):
                out.append(dict(name="get_semantics_sep%d" % SEPS_IDX[sp], module="harness.resolve", body="get_body", cfg={"N": 3, "L": 3, "sep": sp}, depth=4, bounds="N<=3 L<=3 separator %r" % sp, picked="same", symbolic="-"))
            out.append(dict(name="roundtrip", module="harness.resolve", body="roundtrip_body", cfg={"N": 5, "strides": 2}, depth=5, bounds="N<=5", picked="separator, pathattr, n, parent vector, name rotation", symbolic="-"))
    elif prop == "C08":
        from smt import glob_regex  # noqa
        out.append(dict(kind="re", name="component_match", module="smt.glob_regex", body="run_partition", cfg={"L": 4 if q else 5}, bounds="pattern length <= %d, 19-char alphabet, names unbounded" % (4 if q else 5),
                        picked="pattern, ignorecase", symbolic="the name (z3 String, any length)"))
        out.append(dict(name="glob_semantics_valsem", module="harness.resolve", body="glob_body", cfg={"N": 3, "L": 2, "rotations": 2 if q else 6, "valsem": True}, depth=4,
                        bounds="N<=3 L<=2 %d rotations, all-equal/falsy node class" % (2 if q else 6), picked="n, parent vector, name rotation, components, cache prelude", symbolic="-"))
        if q:
            out.append(dict(name="glob_semantics", module="harness.resolve", body="glob_body", cfg={"N": 3, "L": 2, "rotations": 6}, depth=4, bounds="N<=3 L<=2 6 rotations", picked="n, parent vector, name rotation, components, cache prelude", symbolic="-"))
        else:
            out.append(dict(name="glob_semantics4", module="harness.resolve", body="glob_body", cfg={"N": 4, "L": 2}, depth=5, bounds="N<=4 L<=2 all rotations", picked="same", symbolic="-"))
            out.append(dict(name="glob_semantics3", module="harness.resolve", body="glob_body", cfg={"N": 3, "L": 3, "rotations": 4}, depth=5, bounds="N<=3 L<=3 4 rotations", picked="same", symbolic="-"))
            out.append(dict(name="glob_semantics_sep", module="harness.resolve", body="glob_body", cfg={"N": 3, "L": 2, "sep": "::"}, depth=4, bounds="N<=3 L<=2 separator '::'", picked="same", symbolic="-"))
    elif prop == "C17":
        pk = "n, parent vector (forest), call, arguments, behaviour of the special methods"
        if q:
            out.append(dict(name="identity_mixin4", module="harness.identity", body="c17_body", cfg={"N": 4, "exactN": True, "L": 1}, depth=5, bounds="N=4 L<=1", picked=pk, symbolic="-"))
            out.append(dict(name="identity_mixin3", module="harness.identity", body="c17_body", cfg={"N": 3, "L": 2}, depth=4, bounds="N<=3 L<=2", picked=pk, symbolic="-"))
            out.append(dict(name="identity_light", module="harness.identity", body="c17_body", cfg={"N": 3, "L": 2, "family": "light"}, depth=4, bounds="N<=3 L<=2", picked=pk, symbolic="-"))
        else:
            out.append(dict(name="identity_mixin5", module="harness.identity", body="c17_body", cfg={"N": 5, "exactN": True, "L": 1}, depth=6, bounds="N=5 L<=1", picked=pk, symbolic="-"))
            out.append(dict(name="identity_mixin4", module="harness.identity", body="c17_body", cfg={"N": 4, "L": 3}, depth=6, bounds="N<=4 L<=3", picked=pk, symbolic="-"))
            out.append(dict(name="identity_light4", module="harness.identity", body="c17_body", cfg={"N": 4, "L": 3, "family": "light"}, depth=6, bounds="N<=4 L<=3", picked=pk, symbolic="-"))
    elif prop == "C19":
        N = 4 if q else 5
        out.append(dict(name="copy_independent_isomorphic", module="harness.copying", body="c19_body", cfg={"N": N}, depth=5, bounds="N<=%d" % N,
                        picked="n, parent vector, class, entry, protocol/deepcopy, symlink targets", symbolic="-"))
    elif prop == "C20":
        N = 3 if q else 4
        pk = "link targets, parent vector (forest), attribute name, constructor-kwargs link"
        out.append(dict(name="forward", module="harness.symlink", body="forward_body", cfg={"N": N}, depth=4, bounds="N=%d" % N, picked=pk, symbolic="written values (unbounded ints)"))
        out.append(dict(name="independent", module="harness.symlink", body="independent_body", cfg={"N": N}, depth=5, bounds="N=%d, one structural call" % N, picked="link targets, forest, call", symbolic="-"))
        out.append(dict(name="interleave", module="harness.symlink", body="interleave_body", cfg={"N": 3, "K": 2 if q else 3}, depth=5, bounds="N=3, %d steps" % (2 if q else 3), picked="link targets, forest, steps", symbolic="written values"))
    return out


SEPS_IDX = {".": 1, "|": 2, "::": 3}
NOT_APPLICABLE = {}
