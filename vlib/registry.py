"""Obligations per property and tier, and the static part of the evidence text."""

CH = ("bounded symbolic execution of the real /repo/anytree code under CrossHair 0.0.110: every choice point of the harness "
      "(tree shape, call, arguments, flags asked by the real code) is a z3-decided fork in CrossHair's search tree, values marked "
      "symbolic stay z3 terms on the path; verdict per partition is CrossHair's CONFIRMED (= path tree exhausted, post-condition "
      "true on every path) or a counterexample that is replayed on the real code in a plain interpreter before it is reported")

PROPS = {}


def _p(pid, technique, explanation, rule, bq, bt, outside, assumptions):
    PROPS[pid] = dict(technique=technique, explanation=explanation, rule=rule, bounds=dict(quick=bq, thorough=bt),
                      outside=outside, assumptions=assumptions)


COMMON_ASSUME = [
    "CrossHair's search-tree exhaustion is sound (a fork is only closed when z3 proved it infeasible or both sides were explored)",
    "the oracle in /verif/harness and /verif/oracle states the property correctly",
    "CPython semantics; recursion depth and memory limits are not modelled",
]

_p("C05", "CrossHair/z3 bounded exhaustive symbolic execution of the five iterators against reference orders",
   CH + ". C05 is pure structure: all inputs are solver-picked cases (shape, start node, consumption count).",
   "one path = one (tree shape as parent vector, start node, partial-consumption count); non-trivial = subtree of the start node has >= 3 nodes; distinct = distinct decision tuples",
   "all ordered trees with <= 5 nodes, every start node, next() 0..2 times", "all ordered trees with <= 7 nodes, every start node, next() 0..2 times",
   ["trees with more nodes than the bound", "recursion-depth limits on very deep trees", "concurrent mutation during iteration"],
   COMMON_ASSUME)

_p("C06", "CrossHair/z3 symbolic execution of each iterator with lazy stop/filter flags and an unbounded symbolic maxlevel",
   CH + ". stop(node)/filter_(node) answers are fresh solver Booleans created when the real code asks; maxlevel is None or a z3 Int with no bound.",
   "one path = (shape, start, maxlevel region, answers of stop/filter actually asked); non-trivial = >= 2 admitted nodes; distinct = distinct decision tuples",
   "trees with <= 4 nodes, every start node, every stop set and filter set, maxlevel None or any integer; 5 iterators",
   "trees with <= 5 nodes (<= 6 for PreOrderIter from the root), same",
   ["impure predicates (results depending on call count)", "trees beyond the bound"],
   COMMON_ASSUME + ["stop/filter are pure per node (memoised per path)"])


def obligations(prop, tier):
    q = tier == "quick"
    out = []
    if prop == "C05":
        out.append(dict(name="order_once_sameset", module="harness.iters", body="c05_body", cfg={"N": 5 if q else 7}, depth=3 if q else 5,
                        bounds="N<=%d" % (5 if q else 7), picked="n, parent vector, start, consume", symbolic="-"))
    elif prop == "C06":
        for it in ("pre", "post", "level", "group", "zigzag"):
            out.append(dict(name="restrict_" + it, module="harness.iters", body="c06_body", cfg={"iter": it, "N": 4 if q else 5}, depth=4 if q else 5,
                            bounds="N<=%d" % (4 if q else 5), picked="n, parent vector, start", symbolic="maxlevel (unbounded int), stop/filter answers"))
    return out


NOT_APPLICABLE = {}
