"""bin/check driver: runs the obligations of one property, replays counterexamples,
matches known findings, writes evidence.  Exit codes: 0 ok, 1 violation, 3 harness error."""
import argparse
import json
import multiprocessing as mp
import os
import random
import subprocess
import sys
import time

VERIF = os.path.dirname(os.path.dirname(os.path.abspath(__file__)))
REPO = os.environ.get("VERIF_REPO", "/repo")


def _pool_init():
    sys.setrecursionlimit(10000)


def _run(task):
    """returns a JSON string (always picklable, whatever a harness put into its details)"""
    try:
        if task.get("kind") == "re":
            from smt import glob_regex

            out = glob_regex.run_partition(task)
        else:
            from . import worker

            out = worker.run_partition(task)
        return json.dumps(out, default=repr)
    except BaseException as exc:  # never let a worker die silently: the pool would wait forever
        import traceback

        out = {k: task.get(k) for k in ("obligation", "kind", "module", "body", "cfg", "prefix", "assertions", "twin")}
        out.update(state="WORKER_ERROR", error=repr(exc) + traceback.format_exc(limit=6), wall_s=0.0)
        return json.dumps(out, default=repr)


def _enum(args):
    from . import worker

    task, depth = args
    return worker.enumerate_prefixes(task, depth)


def replay_subprocess(rep):
    """Replay a trace in a fresh plain interpreter; returns 'ok'|'known'|'violation'|'error'."""
    p = subprocess.run(
        [sys.executable, "-m", "vlib.replay", "--json", "-"],
        input=json.dumps(rep).encode(),
        capture_output=True,
        cwd=VERIF,
        env=dict(os.environ, VERIF_REPO=REPO, PYTHONDONTWRITEBYTECODE="1"),
        timeout=600,
    )
    try:
        return json.loads(p.stdout.decode().strip().splitlines()[-1])
    except Exception:
        return {"verdict": "error", "detail": (p.stdout.decode() + p.stderr.decode())[-2000:]}


def load_known(prop):
    path = os.path.join(VERIF, "known_findings.json")
    if not os.path.exists(path):
        return []
    return [e for e in json.load(open(path))["findings"] if e["property"] == prop]


def main(argv=None):
    ap = argparse.ArgumentParser()
    ap.add_argument("prop")
    ap.add_argument("--tier", default=os.environ.get("VERIF_TIER", "quick"), choices=["quick", "thorough"])
    ap.add_argument("--replay")
    ap.add_argument("--only", help="run only obligations whose name contains this")
    ap.add_argument("--jobs", type=int, default=int(os.environ.get("VERIF_JOBS", "16")))
    ap.add_argument("--no-evidence", action="store_true")
    ap.add_argument("--timeout", type=float, help="override per-partition timeout (testing)")
    a = ap.parse_args(argv)
    sys.path.insert(0, VERIF)
    from . import registry

    prop = a.prop
    if a.replay:
        rep = json.load(open(a.replay))
        r = replay_subprocess(rep)
        print(json.dumps(r, indent=1))
        if r["verdict"] == "violation":
            print("VIOLATION property=%s replay=%s" % (prop, a.replay))
            return 1
        return 0 if r["verdict"] in ("ok", "known") else 3

    seed = int(os.environ.get("VERIF_SEED", "0"))
    t0 = time.time()
    obligations = registry.obligations(prop, a.tier)
    if a.only:
        obligations = [o for o in obligations if a.only in o["name"]]
    if not obligations:
        print("no obligations for", prop)
        return 3
    if a.timeout:
        for o in obligations:
            o["timeout"] = a.timeout

    # ---- known findings: is each listed defect still present? (witness replay, mask off)
    active = []
    known_lines = []
    for e in load_known(prop):
        if e["status"] != "known":
            continue
        present = []
        for wname, w in sorted(e["witnesses"].items()):
            w = dict(w)
            w["cfg"] = dict(w["cfg"], mask=[])
            r = replay_subprocess(w)
            if r["verdict"] == "violation":
                active.append("%s/%s" % (e["id"], wname))
                present.append(wname)
            else:
                print("note: listed finding %s no longer reproduces for '%s' (verdict %s): mask NOT applied there" % (e["id"], wname, r["verdict"]))
        if present:
            line = "KNOWN-FINDING: property=%s %s [%s]: %s" % (prop, e["id"], ",".join(present), e["what"])
            known_lines.append(line)
            print(line)
    for o in obligations:
        o["cfg"] = dict(o["cfg"], mask=list(active))

    ctx = mp.get_context("spawn")
    pool = ctx.Pool(min(a.jobs, os.cpu_count() or 1), initializer=_pool_init)
    harness_errors = []
    try:
        # ---- partitions
        tasks = []
        enum_jobs = []
        for o in obligations:
            base = dict(
                kind=o.get("kind", "ch"), module=o["module"], body=o["body"], cfg=o["cfg"],
                assertions=o.get("assertions", 0), repo=REPO, timeout=o.get("timeout", 400 if a.tier == "quick" else 1800),
                path_timeout=o.get("path_timeout", 120), twin=False, prefix=[], obligation=o["name"],
            )
            o["_base"] = base
            if base["kind"] == "re":
                from smt import glob_regex

                for part in glob_regex.partitions(o):
                    tasks.append(dict(base, **part))
            else:
                enum_jobs.append((o, pool.apply_async(_enum, ((base, o.get("depth", 0)),))))
                if not o.get("no_twin"):
                    tasks.append(dict(base, twin=True))
        for o, job in enum_jobs:
            pres = job.get()
            o["_nparts"] = len(pres)
            for pre in pres:
                tasks.append(dict(o["_base"], prefix=pre))
        random.Random(seed).shuffle(tasks)
        # longest obligations first helps the tail; keep the seed-shuffle inside equal weights
        tasks.sort(key=lambda t: -t.get("weight", 0))
        # overall wall-clock budget: a change to the code under test must never make a check run for hours
        budget = float(os.environ.get("VERIF_BUDGET_S", "1500" if a.tier == "quick" else "7200"))
        deadline = t0 + budget
        pending = [(t, pool.apply_async(_run, (t,))) for t in tasks]
        results = []
        timed_out = 0
        for t, job in pending:
            left = deadline - time.time()
            try:
                results.append(json.loads(job.get(timeout=max(left, 0.01))))
            except mp.TimeoutError:
                timed_out += 1
                out = {k: t.get(k) for k in ("obligation", "kind", "module", "body", "cfg", "prefix", "assertions", "twin")}
                out.update(state="BUDGET_EXCEEDED", wall_s=0.0, error="overall time budget of %.0f s exceeded" % budget)
                results.append(out)
        if timed_out:
            pool.terminate()
    finally:
        pool.close()
        pool.join()

    # ---- aggregate
    per = {}
    violations = []
    for o in obligations:
        per[o["name"]] = dict(
            name=o["name"], kind=o.get("kind", "ch"), harness="%s.%s" % (o["module"], o["body"]), cfg={k: v for k, v in o["cfg"].items()},
            assertions=o.get("assertions", 0), bounds=o.get("bounds", ""), picked=o.get("picked", ""), symbolic=o.get("symbolic", ""),
            partitions=0, confirmed=0, paths=0, nontrivial=0, z3_queries=0, z3_s=0.0, cpu_wall_s=0.0, states={},
            known_hits={}, samples=[], functions=set(), twin=None, queries_unsat=0,
        )
    cand = []
    for r in results:
        t = r["task"] if "task" in r else {}
        name = r.get("obligation") or t.get("obligation")
        rec = per[r["obligation"]]
        st = r.get("state")
        if r.get("twin"):
            rec["twin"] = st
            rec["cpu_wall_s"] += r["wall_s"]
            if st != "POST_FAIL":
                harness_errors.append("reachability twin of %s came back %s (%s)" % (rec["name"], st, r.get("error", r.get("messages"))))
            continue
        rec["partitions"] += 1
        rec["states"][st] = rec["states"].get(st, 0) + 1
        rec["paths"] += r.get("paths", 0)
        rec["nontrivial"] += r.get("nontrivial", 0)
        rec["z3_queries"] += r.get("z3_queries", 0)
        rec["z3_s"] += r.get("z3_s", 0.0)
        rec["cpu_wall_s"] += r["wall_s"]
        rec["queries_unsat"] += r.get("queries_unsat", 0)
        for k, v in r.get("known", {}).items():
            rec["known_hits"][k] = rec["known_hits"].get(k, 0) + v
        for s in r.get("samples", []):
            if len(rec["samples"]) < 3:
                rec["samples"].append({"prefix": r.get("prefix", []), "decisions": s})
        rec["functions"].update(r.get("functions", []))
        if st == "CONFIRMED":
            rec["confirmed"] += 1
        elif st in ("POST_FAIL", "EXEC_ERR", "MIXED"):
            if not r.get("fails"):
                harness_errors.append("%s: %s without a recorded trace: %s" % (rec["name"], st, r.get("messages")))
            for f in r.get("fails", []):
                cand.append((rec, r, f))
        elif st == "CANNOT_CONFIRM":
            pass
        elif st == "RE_OK":
            rec["confirmed"] += 1
        elif st == "RE_FAIL":
            for f in r.get("fails", []):
                cand.append((rec, r, f))
        else:
            harness_errors.append("%s: partition %s ended %s: %s" % (rec["name"], r.get("prefix"), st, r.get("error", r.get("messages"))))

    # ---- replay candidates on the real code in a plain interpreter
    os.makedirs(os.path.join(VERIF, "replays"), exist_ok=True)
    seen_sig = set()
    nrep = 0
    for rec, r, f in cand:
        if nrep >= 12:
            break
        if isinstance(f["trace"], dict):
            harness_errors.append("%s: counterexample could not be realised: %s" % (rec["name"], f["trace"]))
            continue
        trace = list(f["trace"]) if r.get("kind") == "re" else list(r.get("prefix", [])) + list(f["trace"])[len(r.get("prefix", [])):]
        rep = dict(property=prop, obligation=rec["name"], kind=r.get("kind", "ch"), module=r["module"], body=r["body"], cfg=r["cfg"],
                   assertions=r["assertions"], trace=trace, detail=f.get("detail"))
        sig = json.dumps([rec["name"], trace], sort_keys=True, default=str)
        if sig in seen_sig:
            continue
        seen_sig.add(sig)
        nrep += 1
        v = replay_subprocess(rep)
        if v["verdict"] == "violation":
            path = os.path.join(VERIF, "replays", "%s-%s-%d.json" % (prop, rec["name"].replace("/", "_"), len(violations)))
            rep["replayed_detail"] = v.get("detail")
            json.dump(rep, open(path, "w"), indent=1, default=str)
            violations.append(path)
            print("counterexample (%s): %s" % (rec["name"], json.dumps(v.get("detail"), default=str)[:1500]))
            print("VIOLATION property=%s replay=%s" % (prop, path))
        else:
            harness_errors.append("%s: solver counterexample does not reproduce in a plain interpreter (%s): trace=%s detail=%s"
                                  % (rec["name"], v["verdict"], trace, json.dumps(f.get("detail"), default=str)[:600]))

    # ---- evidence
    wall = time.time() - t0
    obl_total = sum(p["partitions"] for p in per.values())
    obl_ok = sum(p["confirmed"] for p in per.values())
    exhaustive = obl_total == obl_ok and not violations and not harness_errors
    table = []
    for p in per.values():
        p = dict(p)
        p["functions"] = sorted(p["functions"])
        p["z3_s"] = round(p["z3_s"], 3)
        p["cpu_wall_s"] = round(p["cpu_wall_s"], 1)
        p["verdict"] = ("confirmed over all paths within the bound" if p["partitions"] and p["partitions"] == p["confirmed"]
                        else "NOT exhaustive / failed: %s" % p["states"])
        table.append(p)
    meta = registry.PROPS[prop]
    funcs = sorted(set(f for p in table for f in p["functions"]))
    ev = {
        "property_id": prop,
        "tier": a.tier,
        "seed": seed,
        "level": "other",
        "coverage": {
            "explanation": meta["explanation"],
            "technique": meta["technique"],
            "evaluations": sum(p["paths"] for p in table) + sum(p["queries_unsat"] for p in table),
            "distinct_nontrivial": sum(p["nontrivial"] for p in table),
            "rule": meta["rule"],
            "samples": [s for p in table for s in p["samples"]][:8] or [{"note": "no sample recorded"}],
            "obligations": obl_total,
            "discharged": obl_ok,
            "exhaustive": bool(exhaustive),
            "bounds": meta["bounds"][a.tier],
            "outside_the_claim": meta["outside"],
            "functions_encoded": funcs,
            "solver_queries": sum(p["z3_queries"] for p in table),
            "solver_seconds": round(sum(p["z3_s"] for p in table), 2),
            "cpu_seconds_all_workers": round(sum(p["cpu_wall_s"] for p in table), 1),
            "per_obligation": table,
            "known_findings_active": active,
            "known_finding_lines": known_lines,
            "harness_errors": harness_errors,
            "violations": violations,
            "repo": REPO,
            "repo_head": _git_head(REPO),
            "checker_cmd": "bin/check %s --tier %s" % (prop, a.tier),
            "trusted_base": ["CPython 3.12", "z3 5.1.0", "CrossHair 0.0.110 search tree / proxies", "oracles under /verif/oracle and /verif/harness"],
        },
        "assumptions": meta["assumptions"],
        "wall_s": round(wall, 2),
        "violations": len(violations),
    }
    if not a.no_evidence and not a.only:
        os.makedirs(os.path.join(VERIF, "evidence"), exist_ok=True)
        json.dump(ev, open(os.path.join(VERIF, "evidence", prop + ".json"), "w"), indent=1, default=str)
        if a.tier == "thorough":  # keep the last thorough run beside the per-change (quick) evidence
            os.makedirs(os.path.join(VERIF, "evidence", "thorough"), exist_ok=True)
            json.dump(ev, open(os.path.join(VERIF, "evidence", "thorough", prop + ".json"), "w"), indent=1, default=str)
    for p in table:
        print("%-28s parts %3d/%-3d paths %6d nontrivial %6d z3 %6d q %6.1fs cpu %7.1fs twin=%s known=%s %s" % (
            p["name"], p["confirmed"], p["partitions"], p["paths"], p["nontrivial"], p["z3_queries"], p["z3_s"], p["cpu_wall_s"],
            p["twin"], p["known_hits"], "" if p["partitions"] == p["confirmed"] else p["states"]))
    print("%s %s: obligations %d/%d discharged, wall %.1fs, violations %d, harness errors %d" % (
        prop, a.tier, obl_ok, obl_total, wall, len(violations), len(harness_errors)))
    if violations:
        return 1
    if harness_errors:
        for h in harness_errors[:10]:
            print("HARNESS-ERROR:", h[:1500])
        return 3
    return 0


def _git_head(repo):
    try:
        h = subprocess.run(["git", "-C", repo, "rev-parse", "--short", "HEAD"], capture_output=True).stdout.decode().strip()
        d = subprocess.run(["git", "-C", repo, "status", "--porcelain", "--", "anytree"], capture_output=True).stdout.decode().strip()
        return h + ("+dirty" if d else "")
    except Exception:
        return "?"


def _guarded():
    try:
        return main()
    except SystemExit:
        raise
    except BaseException:  # an internal error must never look like a violation (exit 1)
        import traceback

        traceback.print_exc()
        print("HARNESS-ERROR: internal error of the checking machinery (see traceback above)")
        return 3


if __name__ == "__main__":
    sys.exit(_guarded())
