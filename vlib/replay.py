"""Replay one decision trace on the real code in a plain interpreter (no CrossHair)."""
import json
import os
import sys


def main():
    src = sys.stdin.read() if sys.argv[-1] == "-" else open(sys.argv[-1]).read()
    rep = json.loads(src)
    repo = os.environ.get("VERIF_REPO", "/repo")
    here = os.path.dirname(os.path.dirname(os.path.abspath(__file__)))
    if here not in sys.path:
        sys.path.insert(0, here)
    task = dict(module=rep["module"], body=rep["body"], cfg=rep["cfg"], assertions=rep.get("assertions", 0), repo=repo)
    try:
        if rep.get("kind") == "re":
            from smt import glob_regex

            verdict, detail = glob_regex.replay(rep)
        else:
            from vlib import worker

            verdict, detail = worker.run_plain(task, rep["trace"])
        assert "crosshair" not in sys.modules
    except BaseException as exc:
        import traceback

        verdict, detail = "error", repr(exc) + traceback.format_exc(limit=6)
    print(json.dumps({"verdict": verdict, "detail": detail}, default=str))


if __name__ == "__main__":
    main()
