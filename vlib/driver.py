"""The one function CrossHair analyses (`entry`) and the per-path bookkeeping.

An obligation is a plain function body(cfg) -> verdict:
    True            property held on this path
    "KNOWN:<id>"    path hit a listed known finding with exactly its modelled outcome
    anything else   violation (the value is kept as the detail)
A body may call nontrivial() to mark the path as a non-trivial case.
"""
import signal
import traceback

from . import nondet

PATH_CPU_LIMIT = 30.0  # seconds of CPU for ONE path; ordinary paths take 0.03-2 s


class PathHang(Exception):
    """the real code did not come back within PATH_CPU_LIMIT CPU-seconds on one path (e.g. it follows a parent
    cycle for ever); raised from a SIGVTALRM handler so that a hang becomes a replayable failing path"""


def _on_alarm(signum, frame):
    raise PathHang("no result after %.0f s of CPU time on this path" % PATH_CPU_LIMIT)


def _arm():
    try:
        signal.signal(signal.SIGVTALRM, _on_alarm)
        signal.setitimer(signal.ITIMER_VIRTUAL, PATH_CPU_LIMIT)
        return True
    except (ValueError, AttributeError, OSError):  # not the main thread / platform without it
        return False


def _disarm():
    try:
        signal.setitimer(signal.ITIMER_VIRTUAL, 0)
    except (ValueError, AttributeError, OSError):
        pass

BODY = None
CFG = None
TWIN = False  # reachability twin: fail on the first non-trivial path
STATS = {}
FAILS = []
_MAXFAILS = 5
_nontrivial = [False]


def reset_stats():
    STATS.clear()
    STATS.update(paths=0, nontrivial=0, known={}, keys=set(), samples=[])
    del FAILS[:]


def nontrivial():
    _nontrivial[0] = True


def step():
    nondet.begin()
    _nontrivial[0] = False
    _arm()
    try:
        v = BODY(CFG)
    except Exception as exc:  # CrossHair's control-flow exceptions are BaseException
        v = {"unexpected_exception": repr(exc), "traceback": traceback.format_exc(limit=8)}
    finally:
        _disarm()
    STATS["paths"] += 1
    if _nontrivial[0]:
        key = nondet.shape_key()
        if key not in STATS["keys"]:
            STATS["keys"].add(key)
            STATS["nontrivial"] += 1
            if len(STATS["samples"]) < 3:
                STATS["samples"].append(list(key))
        if TWIN:
            return False
    if v is True:
        return True
    if isinstance(v, str) and v.startswith("KNOWN:"):
        STATS["known"][v[6:]] = STATS["known"].get(v[6:], 0) + 1
        return True
    if len(FAILS) < _MAXFAILS:
        try:
            tr = nondet.concrete_trace()
        except Exception as exc:
            tr = {"unrealisable": repr(exc)}
        FAILS.append({"trace": tr, "detail": _jsonable(v)})
    return False


def _jsonable(v):
    if nondet.MODE == "symbolic":
        v = nondet.concretize(v)
    return _jsonable2(v)


def _jsonable2(v):
    if v is None or v.__class__ in (bool, int, float, str):
        return v
    if isinstance(v, dict):
        return {str(k): _jsonable2(x) for k, x in v.items()}
    if isinstance(v, (list, tuple, set, frozenset)):
        return [_jsonable2(x) for x in v]
    return repr(v)


def entry(x: int) -> bool:
    """
    post: _
    """
    return step()
