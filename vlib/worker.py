"""One partition = one CrossHair run of driver.entry with a pinned decision prefix."""
import importlib
import os
import sys
import time


def _fresh_import(modname, repo, assertions):
    os.environ["ANYTREE_ASSERTIONS"] = "1" if assertions else "0"
    os.environ["ANYTREE_VERIF"] = "1"
    if repo and (not sys.path or sys.path[0] != repo):
        sys.path.insert(0, repo)
    for m in list(sys.modules):
        if m == "anytree" or m.startswith("anytree.") or m.startswith("harness.") or m.startswith("oracle."):
            del sys.modules[m]
    mod = importlib.import_module(modname)
    import anytree

    here = os.path.realpath(os.path.dirname(anytree.__file__))
    want = os.path.realpath(os.path.join(repo, "anytree"))
    if here != want:
        raise RuntimeError("anytree imported from %s, expected %s" % (here, want))
    return mod


_z3 = {"n": 0, "t": 0.0, "patched": False}


def _patch_z3():
    if _z3["patched"]:
        return
    import z3

    orig = z3.Solver.check

    def check(self, *a, **k):
        t0 = time.perf_counter()
        try:
            return orig(self, *a, **k)
        finally:
            _z3["n"] += 1
            _z3["t"] += time.perf_counter() - t0

    z3.Solver.check = check
    _z3["patched"] = True


def _patch_crosshair():
    """Disable CrossHair's contract-based call summaries ("short-circuiting"): functions that carry a
    PEP316 docstring - notably CrossHair's own replacement of builtin repr() - may otherwise be skipped
    with a free symbolic return value that is reconciled later.  We always want the real body executed."""
    import crosshair.core as core

    if getattr(core.ShortCircuitingContext, "_verif_patched", False):
        return

    def _enter(self):
        return self

    def _exit(self, *a):
        return False

    core.ShortCircuitingContext.__enter__ = _enter
    core.ShortCircuitingContext.__exit__ = _exit
    core.ShortCircuitingContext._verif_patched = True


def run_partition(task):
    """task: module, body, cfg, prefix, assertions, repo, timeout, twin"""
    t0 = time.time()
    from . import driver, nondet

    out = {k: task.get(k) for k in ("obligation", "kind", "module", "body", "cfg", "prefix", "assertions", "twin")}
    try:
        mod = _fresh_import(task["module"], task["repo"], task["assertions"])
        _patch_z3()
        _patch_crosshair()
        _z3["n"] = 0
        _z3["t"] = 0.0
        from crosshair.core_and_libs import AnalysisKind, analyze_function, run_checkables
        from crosshair.options import AnalysisOptionSet

        driver.BODY = getattr(mod, task["body"])
        driver.CFG = task["cfg"]
        driver.TWIN = bool(task["twin"])
        driver.reset_stats()
        nondet.MODE = "symbolic"
        nondet.PREFIX = list(task["prefix"])
        opts = AnalysisOptionSet(
            per_condition_timeout=float(task["timeout"]),
            per_path_timeout=float(task.get("path_timeout", 60.0)),
            report_all=True,
            analysis_kind=[AnalysisKind.PEP316],
            max_uninteresting_iterations=10**9,
        )
        msgs = list(run_checkables(analyze_function(driver.entry, opts)))
        states = [m.state.name for m in msgs]
        out["states"] = states
        out["messages"] = [m.message[:300] for m in msgs]
        if len(states) == 1:
            out["state"] = states[0]
        elif not states:
            out["state"] = "NO_RESULT"
        else:
            out["state"] = "MIXED"
        st = driver.STATS
        out["paths"] = st["paths"]
        out["nontrivial"] = st["nontrivial"]
        out["known"] = dict(st["known"])
        out["samples"] = st["samples"]
        out["fails"] = list(driver.FAILS)
        out["functions"] = _functions_of(task, st["samples"][:1] or [None])
        out["z3_queries"] = _z3["n"]
        out["z3_s"] = round(_z3["t"], 3)
    except Exception as exc:  # worker-level failure = harness error
        import traceback

        out["state"] = "WORKER_ERROR"
        out["error"] = repr(exc) + "\n" + traceback.format_exc(limit=10)
    out["wall_s"] = round(time.time() - t0, 3)
    return out


_DEFAULTS = {"?int": 2, "?str": "a", "?bool": True}


def _functions_of(task, samples):
    """anytree functions executed on a plain replay of a sample path (sys.setprofile)."""
    from . import driver, nondet

    root = os.path.realpath(os.path.join(task["repo"], "anytree")) + os.sep
    seen = set()

    def prof(frame, event, arg):
        if event == "call":
            co = frame.f_code
            fn = co.co_filename
            if fn.startswith(root):
                seen.add("%s:%s" % (fn[len(root):], co.co_qualname))

    for sm in samples:
        if sm is None:
            continue
        trace = [_DEFAULTS.get(v, v) if isinstance(v, str) else v for v in sm]
        nondet.MODE = "replay"
        nondet.PREFIX = []
        nondet.REPLAY = trace
        nondet.begin()
        sys.setprofile(prof)
        try:
            driver.BODY(driver.CFG)
        except BaseException:
            pass
        finally:
            sys.setprofile(None)
            nondet.MODE = "symbolic"
    return sorted(seen)


def run_plain(task, trace):
    """Replay one concrete decision trace in a plain interpreter (no CrossHair).

    Returns (verdict, detail): verdict in {'ok','known','violation'}."""
    from . import driver, nondet

    mod = _fresh_import(task["module"], task["repo"], task["assertions"])
    driver.BODY = getattr(mod, task["body"])
    driver.CFG = task["cfg"]
    driver.TWIN = False
    driver.reset_stats()
    nondet.MODE = "replay"
    nondet.PREFIX = []
    nondet.REPLAY = list(trace)
    ok = driver.step()
    if ok:
        return ("known" if driver.STATS["known"] else "ok"), dict(driver.STATS["known"])
    return "violation", driver.FAILS[0]["detail"] if driver.FAILS else None


def enumerate_prefixes(task, depth):
    """Feasible decision prefixes of length <= depth (plain interpreter, complete by
    construction: every option of every choice point is followed)."""
    from . import driver, nondet

    mod = _fresh_import(task["module"], task["repo"], task["assertions"])
    driver.BODY = getattr(mod, task["body"])
    driver.CFG = task["cfg"]
    driver.TWIN = False
    result = []
    stack = [[]]
    while stack:
        pre = stack.pop()
        if len(pre) >= depth:
            result.append(pre)
            continue
        driver.reset_stats()
        nondet.MODE = "enumerate"
        nondet.PREFIX = list(pre)
        nondet.REPLAY = []
        try:
            nondet.begin()
            driver.BODY(driver.CFG)
        except nondet.NeedChoice as nc:
            if len(nondet.TRACE) > len(pre):
                raise RuntimeError("non-deterministic harness")
            for o in reversed(nc.options):
                stack.append(pre + [o])
            continue
        except nondet.SymEnd:
            result.append(pre)
            continue
        except Exception:
            pass  # a failing leaf stays its own partition; CrossHair will report it
        result.append(pre)
    return result
