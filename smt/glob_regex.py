"""E-RE: z3 regular-expression inclusion between the pattern the REAL Resolver compiles for one glob
component and the wildcard semantics stated in C08, for all names of any length.

Per (pattern, ignorecase):  the real Resolver.glob is driven on a two-node tree so that the real code
translates and compiles the pattern; the compiled object is taken from the real cache; its sre parse
tree is translated to a z3 regex R_impl (+ Sigma* when the code's .match() is not end-anchored);
R_spec is built from the statement; z3 decides   exists x in R_impl & ~R_spec   and
exists x in R_spec & ~R_impl.   Both unsat = equal for all strings.  A model is replayed through the
real glob before it counts.  unknown / unsupported construct = inconclusive (harness error), unless a
concrete disagreement is found by pushing sample strings through the real code (then: violation).
"""
import itertools
import os
import re
import sys
import time

ALPHABET = ["*", "?", "a", "B", ".", "[", "]", chr(92), "(", "+", "^", "$", "|", "{", "-", " ", "\n", u"é", "!"]
CLAIMED = [chr(c) for c in range(32, 127)] + ["\n", "\t", u"é", u"É"]
SPECIAL = ("", ".", "..", "**")
CHUNK = 2000


def all_patterns(L):
    out = []
    for ln in range(1, L + 1):
        for tup in itertools.product(ALPHABET, repeat=ln):
            out.append("".join(tup))
    return out


def partitions(o):
    n = len(all_patterns(o["cfg"]["L"]))
    return [dict(lo=lo, hi=min(n, lo + CHUNK), prefix=[lo], weight=1) for lo in range(0, n, CHUNK)]


# ------------------------------------------------------------------ spec side (from the statement)

def _pairs():
    d = {}
    for c in "abcdefghijklmnopqrstuvwxyz":
        d[c] = c.upper()
        d[c.upper()] = c
    d[u"é"] = u"É"
    d[u"É"] = u"é"
    return d


PAIR = _pairs()


def spec_match(name, pat, ic):
    from oracle import paths

    return paths.wild(name, pat, ic)


class Z(object):
    def __init__(self):
        import z3

        self.z3 = z3
        self.S = z3.StringSort()
        self.R = z3.ReSort(self.S)
        self.any1 = z3.AllChar(self.R)
        self.full = z3.Full(self.R)
        self.x = z3.String("x")
        self.solver = z3.Solver()
        self.solver.set("timeout", 20000)

    def lit(self, ch):
        return self.z3.Re(self.z3.StringVal(ch))

    def union(self, rs):
        rs = list(rs)
        return rs[0] if len(rs) == 1 else self.z3.Union(*rs)

    def concat(self, rs):
        rs = list(rs)
        if not rs:
            return self.z3.Re(self.z3.StringVal(""))
        return rs[0] if len(rs) == 1 else self.z3.Concat(*rs)

    def spec(self, pat, ic):
        parts = []
        for ch in pat:
            if ch == "*":
                parts.append(self.full)
            elif ch == "?":
                parts.append(self.any1)
            elif ic and ch in PAIR:
                parts.append(self.z3.Union(self.lit(ch), self.lit(PAIR[ch])))
            else:
                parts.append(self.lit(ch))
        return self.concat(parts)


class Unsupported(Exception):
    pass


def impl_regex(z, compiled):
    """sre parse tree of the really compiled pattern -> z3 regex accepted by compiled.match(name)"""
    import re._constants as C
    import re._parser as parser

    flags = compiled.flags
    tree = parser.parse(compiled.pattern, flags & ~re.UNICODE if isinstance(compiled.pattern, str) else flags)
    flags = flags | tree.state.flags

    def charset(ch, fl):
        if fl & re.IGNORECASE:
            acc = [x for x in CLAIMED if re.compile(re.escape(ch), fl & (re.IGNORECASE | re.ASCII)).fullmatch(x)]
            if ch not in acc:
                acc.append(ch)
            return z.union(z.lit(x) for x in acc)
        return z.lit(ch)

    def tr(items, fl, top=False):
        out = []
        end_anchor = False
        for k, (op, av) in enumerate(items):
            if end_anchor:
                raise Unsupported("tokens after an end anchor")
            if op is C.LITERAL:
                out.append(charset(chr(av), fl))
            elif op is C.NOT_LITERAL:
                if fl & re.IGNORECASE:
                    raise Unsupported("NOT_LITERAL with IGNORECASE")
                out.append(z.z3.Intersect(z.any1, z.z3.Complement(z.lit(chr(av)))))
            elif op is C.ANY:
                out.append(z.any1 if fl & re.DOTALL else z.z3.Intersect(z.any1, z.z3.Complement(z.lit("\n"))))
            elif op is C.IN:
                neg = False
                alts = []
                for o2, a2 in av:
                    if o2 is C.NEGATE:
                        neg = True
                    elif o2 is C.LITERAL:
                        alts.append(charset(chr(a2), fl))
                    elif o2 is C.RANGE:
                        if fl & re.IGNORECASE:
                            raise Unsupported("RANGE with IGNORECASE")
                        alts.append(z.z3.Range(z.z3.StringVal(chr(a2[0])), z.z3.StringVal(chr(a2[1]))))
                    else:
                        raise Unsupported("set item %s" % (o2,))
                r = z.union(alts) if alts else z.z3.Empty(z.R)
                out.append(z.z3.Intersect(z.any1, z.z3.Complement(r)) if neg else r)
            elif op in (C.MAX_REPEAT, C.MIN_REPEAT):
                lo, hi, sub = av
                r = tr(list(sub), fl)
                if hi == C.MAXREPEAT:
                    out.append(z.concat([z.z3.Loop(r, lo, lo), z.z3.Star(r)]) if lo else z.z3.Star(r))
                else:
                    out.append(z.z3.Loop(r, lo, hi))
            elif op is C.SUBPATTERN:
                group, add, dele, sub = av
                out.append(tr(list(sub), (fl | add) & ~dele))
            elif op is C.BRANCH:
                out.append(z.union(tr(list(b), fl) for b in av[1]))
            elif op is C.AT:
                if av is C.AT_END_STRING and top and k == len(items) - 1:
                    end_anchor = True
                elif av in (C.AT_BEGINNING_STRING, C.AT_BEGINNING) and top and k == 0 and not (fl & re.MULTILINE and av is C.AT_BEGINNING and False):
                    pass  # .match() is start-anchored anyway
                else:
                    raise Unsupported("anchor %s at position %d" % (av, k))
            else:
                raise Unsupported("regex construct %s" % (op,))
        r = z.concat(out)
        if top and not end_anchor:
            r = z.z3.Concat(r, z.full)
        return r

    return tr(list(tree), flags, top=True)


_PC = []


def _probe_class():
    """a Node class whose separator never occurs in patterns or names, so every string is ONE component"""
    if not _PC:
        from anytree import Node

        class PN(Node):
            separator = "\x1f"

        _PC.append(PN)
    return _PC[0]


def compiled_for(pat, ic):
    """drive the real Resolver so that IT translates, compiles and caches the pattern; return the compiled object"""
    from anytree import Resolver

    Node = _probe_class()
    root = Node("r")
    Node("probe", parent=root)
    Resolver._match_cache.clear()
    Resolver("name", ignorecase=ic, relax=True).glob(root, pat)
    vals = list(Resolver._match_cache.values())
    if len(vals) != 1:
        raise Unsupported("expected exactly one cached pattern after one glob call, found %d" % len(vals))
    return vals[0]


def real_match(name, pat, ic):
    """does the real glob select a child called `name` for the one-component pattern `pat`?"""
    from anytree import Resolver

    Node = _probe_class()
    root = Node("r")
    child = Node(name, parent=root)
    Resolver._match_cache.clear()
    res = Resolver("name", ignorecase=ic, relax=True).glob(root, pat)
    return any(x is child for x in res)


def samples_for(pat):
    """members and near-misses of the pattern's own spec"""
    base = pat.replace("*", "").replace("?", "x")
    out = {base, base + "x", "x" + base, base[:-1], base.swapcase(), base + "\n", pat, pat.replace("*", "ab").replace("?", "\n"), "", "ab", "a", "b",
           pat.replace("*", "").replace("?", u"é")}
    if "[" in pat and "]" in pat:
        inner = pat[pat.index("[") + 1:pat.rindex("]")]
        for ch in inner + "ab":
            out.add(pat[:pat.index("[")] + ch + pat[pat.rindex("]") + 1:])
    return sorted(out)


def run_partition(task):
    t0 = time.time()
    repo = task["repo"]
    if repo and (not sys.path or sys.path[0] != repo):
        sys.path.insert(0, repo)
    out = {k: task.get(k) for k in ("obligation", "kind", "module", "body", "cfg", "prefix", "assertions", "twin")}
    out.update(paths=0, nontrivial=0, known={}, samples=[], fails=[], z3_queries=0, z3_s=0.0, queries_unsat=0, functions=[
        "resolver.py:Resolver.glob", "resolver.py:Resolver.__glob", "resolver.py:Resolver.__find", "resolver.py:Resolver.__match", "resolver.py:Resolver.__translate"])
    errors = []
    try:
        import anytree

        if os.path.realpath(os.path.dirname(anytree.__file__)) != os.path.realpath(os.path.join(repo, "anytree")):
            raise RuntimeError("anytree imported from the wrong place")
        z = Z()
        z3 = z.z3
        pats = all_patterns(task["cfg"]["L"])[task["lo"]:task["hi"]]
        for pat in pats:
            if pat in SPECIAL:
                continue
            for ic in (False, True):
                try:
                    comp = compiled_for(pat, ic)
                    # concrete cross-check on sample strings: re (real) vs spec; also validates the translation below
                    concrete_bad = None
                    for sname in samples_for(pat):
                        if real_match(sname, pat, ic) != spec_match(sname, pat, ic):
                            concrete_bad = sname
                            break
                    if concrete_bad is not None:
                        out["fails"].append({"trace": [pat, ic, concrete_bad], "detail": {"why": "real glob and wildcard semantics disagree (sample string)", "pattern": pat, "ignorecase": ic, "name": concrete_bad}})
                        continue
                    rimpl = impl_regex(z, comp)
                    rspec = z.spec(pat, ic)
                    for sname in samples_for(pat)[:6]:
                        zi = z3.simplify(z3.InRe(z3.StringVal(sname), rimpl))
                        if z3.is_true(zi) != (comp.match(sname) is not None):
                            raise Unsupported("translation validation failed for %r on %r" % (pat, sname))
                    for side, a, b in (("impl-not-spec", rimpl, rspec), ("spec-not-impl", rspec, rimpl)):
                        z.solver.push()
                        z.solver.add(z3.InRe(z.x, z3.Intersect(a, z3.Complement(b))))
                        q0 = time.perf_counter()
                        res = str(z.solver.check())
                        out["z3_s"] += time.perf_counter() - q0
                        out["z3_queries"] += 1
                        if res == "unsat":
                            out["queries_unsat"] += 1
                        elif res == "sat":
                            name = z.solver.model()[z.x].as_string()
                            name = _decode(name)
                            out["fails"].append({"trace": [pat, ic, name], "detail": {"why": "z3 model: " + side, "pattern": pat, "ignorecase": ic, "name": name}})
                        else:
                            errors.append("z3 answered %s for %r ic=%s" % (res, pat, ic))
                        z.solver.pop()
                    out["paths"] += 1
                    out["nontrivial"] += 1 if ("*" in pat or "?" in pat) else 0
                    if len(out["samples"]) < 2:
                        out["samples"].append({"pattern": pat, "ignorecase": ic, "compiled": comp.pattern, "flags": int(comp.flags)})
                except Unsupported as exc:
                    errors.append("%r ic=%s: %s" % (pat, ic, exc))
        if out["fails"]:
            out["state"] = "RE_FAIL"
            out["fails"] = out["fails"][:5]
        elif errors:
            out["state"] = "RE_INCONCLUSIVE"
            out["error"] = "; ".join(errors[:5])
        else:
            out["state"] = "RE_OK"
    except Exception as exc:
        import traceback

        out["state"] = "WORKER_ERROR"
        out["error"] = repr(exc) + traceback.format_exc(limit=8)
    out["z3_s"] = round(out["z3_s"], 3)
    out["wall_s"] = round(time.time() - t0, 3)
    return out


def _decode(s):
    """z3 prints non-ASCII as \\u{..}"""
    return re.sub(r"\\u\{([0-9a-fA-F]+)\}", lambda m: chr(int(m.group(1), 16)), s)


def replay(rep):
    repo = os.environ.get("VERIF_REPO", "/repo")
    if sys.path[0] != repo:
        sys.path.insert(0, repo)
    pat, ic, name = rep["trace"]
    if "\x1f" in name:
        return "ok", {"note": "name contains the probe separator"}
    got = real_match(name, pat, ic)
    exp = spec_match(name, pat, ic)
    if got != exp:
        return "violation", {"pattern": pat, "ignorecase": ic, "name": name, "real_glob_selects": got, "wildcard_semantics": exp}
    return "ok", None
